package mon

import (
	"fmt"
	"math"
	"sync/atomic"

	"verif/harness/lib"
	"verif/harness/spec"
)

func toTenth(f float64) (int, bool) {
	k := int(math.Round(f * 10))
	return k, f == float64(k)/10
}

func tset(s spec.TSet) []float64 {
	out := make([]float64, len(s))
	for i, k := range s {
		out[i] = float64(k) / 10
	}
	return out
}

// obs2 is what one decode of a v2 vector lets us observe.
type obs2 struct {
	ok                  bool
	o                   lib.Obj
	base, temp, env     float64 // scores through the views available at the level
	bSev, tSev, eSev    string
	embBase, embTemp    float64 // through the exported embedded fields
	hasEmbBase, hasEmbT bool
	tEmpty, eEmpty      bool
}

// observe2 decodes s at level and queries every score view.
func observe2(w *W, level int, s string) (x obs2) {
	k := lib.Kind2(level)
	if lib.AutoMode(s+"#order")%2 == 1 {
		return observe2SevFirst(w, level, s)
	}
	o, err, pan := lib.DecodeAuto(k, s)
	if pan != nil || err != nil || o.IsNil() {
		w.Count("valid_vector_not_decoded")
		w.Sample(map[string]string{"not_decoded": s, "kind": k.String(), "err": lib.ErrText(err)})
		return
	}
	x.o = o
	var p *lib.Panic
	bad := func() bool {
		if p != nil {
			w.Count("score_panicked")
			return true
		}
		return false
	}
	switch level {
	case spec.LBase:
		x.base, p = o.Score()
		if bad() {
			return
		}
		_, x.bSev, p = o.Severity()
	case spec.LTemp:
		bv, _, pp := o.BaseView()
		if pp != nil || bv.IsNil() {
			w.Count("base_view_unavailable")
			return
		}
		x.base, p = bv.Score()
		if bad() {
			return
		}
		_, x.bSev, _ = bv.Severity()
		x.temp, p = o.Score()
		if bad() {
			return
		}
		_, x.tSev, p = o.Severity()
		if eb, ok := o.EmbeddedBase(); ok && !eb.IsNil() {
			x.embBase, p = eb.Score()
			x.hasEmbBase = true
		}
		x.tEmpty, _, _ = o.IsEmpty()
	case spec.LEnv:
		bv, _, pp := o.BaseView()
		tv, _, pp2 := o.TemporalView()
		if pp != nil || pp2 != nil || bv.IsNil() || tv.IsNil() {
			w.Count("view_unavailable")
			return
		}
		x.base, p = bv.Score()
		if bad() {
			return
		}
		_, x.bSev, _ = bv.Severity()
		x.temp, p = tv.Score()
		if bad() {
			return
		}
		_, x.tSev, _ = tv.Severity()
		x.env, p = o.Score()
		if bad() {
			return
		}
		_, x.eSev, p = o.Severity()
		if eb, ok := o.EmbeddedBase(); ok && !eb.IsNil() {
			x.embBase, _ = eb.Score()
			x.hasEmbBase = true
		}
		if et, ok := o.EmbeddedTemporal(); ok && !et.IsNil() {
			x.embTemp, _ = et.Score()
			x.hasEmbT = true
		}
		x.tEmpty, _, _ = tv.IsEmpty()
		x.eEmpty, _, _ = o.IsEmpty()
	}
	if bad() {
		return
	}
	x.ok = true
	return
}

func init() {
	register(&Monitor{ID: "C04", Title: "v2 base and temporal scores = FIRST v2 equations", Run: runC04, Replay: replayScore2})
	register(&Monitor{ID: "C05", Title: "v2 environmental score = FIRST v2 environmental equations", Run: runC05, Replay: replayScore2})
}

// kfState tracks the attribution of mismatches to a known finding.
type kfState struct {
	kf   *KnownFinding
	hits atomic.Int64
	keys map[string]*atomic.Int64
}

func newKF(property, id string) *kfState {
	s := &kfState{kf: knownFor(property, id), keys: map[string]*atomic.Int64{}}
	if s.kf != nil {
		for k := range s.kf.Keys {
			s.keys[k] = &atomic.Int64{}
		}
	}
	return s
}

// value returns the recorded wrong value for key.
func (s *kfState) value(key string) (int, bool) {
	if s.kf == nil {
		return 0, false
	}
	v, ok := s.kf.Keys[key]
	return v, ok
}

func (s *kfState) hit(key string) {
	s.hits.Add(1)
	s.keys[key].Add(1)
}

func (s *kfState) report(r *Run) {
	if s.kf == nil {
		return
	}
	if s.hits.Load() > 0 {
		n := 0
		for _, c := range s.keys {
			if c.Load() > 0 {
				n++
			}
		}
		r.Known(s.kf.ID, fmt.Sprintf("%s [%s]: %d of the %d listed keys observed with their recorded values", s.kf.What, s.kf.Site, n, len(s.kf.Keys)))
		r.mu.Lock()
		r.known[s.kf.ID] = s.hits.Load()
		r.mu.Unlock()
	}
	// a listed key that no longer shows its recorded wrong value is worth a note
	gone := 0
	for _, c := range s.keys {
		if c.Load() == 0 {
			gone++
		}
	}
	r.Extra("known_finding_"+s.kf.ID+"_listed_keys_not_observed_this_run", gone)
}

// checkBT2 checks base and temporal scores of vector v observed as x.
func checkBT2(w *W, prop string, level int, s string, v *spec.V2, exp *spec.V2Expect, x *obs2, kf *kfState) {
	c := decodeCase(lib.Kind2(level), s, false)
	baseKey := v.BaseString()
	check := func(what string, got float64, admissible spec.TSet, kfChain func(kb int) spec.TSet) {
		k, grid := toTenth(got)
		if grid && admissible.Has(k) {
			return
		}
		if kb, listed := kf.value(baseKey); listed && grid {
			if kfChain(kb).Has(k) {
				kf.hit(baseKey)
				return
			}
		}
		w.Violate(Violation{Monitor: prop, Check: what, Case: c, Observed: got, Expected: tset(admissible),
			Note: "exact base equation value " + spec.Tables2().BaseExact[v.M[0]][v.M[1]][v.M[2]][v.M[3]][v.M[4]][v.M[5]]})
	}
	ident := func(kb int) spec.TSet { return spec.TSet{kb} }
	tchain := func(kb int) spec.TSet {
		if !v.HasT {
			return spec.TSet{kb}
		}
		return spec.V2TemporalSet(spec.TSet{kb}, int(v.M[spec.V2E]), int(v.M[spec.V2RL]), int(v.M[spec.V2RC]))
	}
	check("base score equals round1 of the exact base equation (halves either way)", x.base, exp.Base, ident)
	if x.hasEmbBase {
		check("base score through the exported embedded Base", x.embBase, exp.Base, ident)
	}
	if level >= spec.LTemp {
		check("temporal score equals round1(base x E x RL x RC), or the base score when the group is absent", x.temp, exp.Temp, tchain)
		if x.hasEmbT {
			check("temporal score through the exported embedded Temporal", x.embTemp, exp.Temp, tchain)
		}
		// the temporal score must follow from the base score the library itself reports
		kb, _ := toTenth(x.base)
		kt, _ := toTenth(x.temp)
		if !tchain(kb).Has(kt) {
			w.Violate(Violation{Monitor: prop, Check: "temporal score follows from the reported base score", Case: c, Observed: x.temp, Expected: tset(tchain(kb)), Note: fmt.Sprintf("reported base %v", x.base)})
		}
	}
}

func runC04(r *Run) int {
	r.CleanOut()
	otherVersionPrelude(r, false)
	kf := newKF("C04", "KF-1")
	var nontrivial atomic.Int64
	var ties atomic.Int64
	r.Parallel(nBase2*101, 32, func(w *W, idx int) {
		bi, ti := idx/101, idx%101-1
		var v spec.V2
		base2(&v, bi)
		if ti >= 0 {
			temporal2(&v, ti)
		}
		exp := spec.Expect2(&v)
		if len(exp.Temp) > 1 || len(exp.Base) > 1 {
			ties.Add(1)
		}
		if !(len(exp.Base) == 1 && exp.Base[0] == 0) {
			nontrivial.Add(1)
		}
		s := v.String()
		for level := v.MinLevel(); level <= spec.LEnv; level++ {
			w.Eval(1)
			x := observe2(w, level, s)
			if !x.ok {
				continue
			}
			checkBT2(w, "C04", level, s, &v, &exp, &x, kf)
		}
		// the same base / temporal metrics followed by an environmental group, read by the environmental decoder:
		// the base and temporal scores seen through its views (quick: four seeded groups per vector; thorough: all
		// 1,920, i.e. every one of the 141 million v2 vectors)
		nEnv := r.Pick(4, nEnv2)
		rng := r.Rng(uint64(idx) + 1<<44)
		for j := 0; j < nEnv; j++ {
			ve := v
			if nEnv == nEnv2 {
				env2(&ve, j)
			} else {
				env2(&ve, rng.IntN(nEnv2))
			}
			se := ve.String()
			w.Eval(1)
			w.Count("vectors_with_an_environmental_group")
			if x := observe2(w, spec.LEnv, se); x.ok {
				checkBT2(w, "C04", spec.LEnv, se, &ve, &exp, &x, kf)
			}
		}
		if idx%6151 == 0 {
			w.Sample(map[string]interface{}{"vector": s, "admissible_base": tset(exp.Base), "admissible_temporal": tset(exp.Temp)})
		}
	})
	assembled2(r, "C04")
	kf.report(r)
	r.Extra("vectors_with_an_exact_half_tie", ties.Load())
	if r.Counter("valid_vector_not_decoded") > 0 || r.Counter("score_panicked") > 0 {
		r.Inconclusive("%d valid vectors were not decoded / %d queries panicked", r.Counter("valid_vector_not_decoded"), r.Counter("score_panicked"))
	}
	r.ProcsChildren(1<<30, 1, 3, 7, 14)
	return r.Finish("all 729 x (100 + absent) = 73,629 v2 vectors, each read by every decoder whose level admits it (base decoder for bare vectors; temporal and environmental decoders for all), and each followed by environmental groups (quick: 4 seeded ones; thorough: all 1,920 = all 141 million v2 vectors) at the environmental decoder, observing Base/Temporal scores through accessors and exported embedded fields; oracle = exact rational v2 equations with admissible sets for exact halves; distinct non-trivial = vectors whose base score is not identically 0",
		true, nontrivial.Load(), 73629*2, 60000, TrustedBase)
}

// adjKey renders the KF-2 key of a vector.
func adjKey(v *spec.V2) string {
	return v.BaseString() + "/CR:" + spec.V2Metrics[spec.V2CR].Codes[v.M[spec.V2CR]] + "/IR:" + spec.V2Metrics[spec.V2IR].Codes[v.M[spec.V2IR]] + "/AR:" + spec.V2Metrics[spec.V2AR].Codes[v.M[spec.V2AR]]
}

type c05stats struct {
	negative, capBound, ties atomic.Int64
}

// checkEnv2 checks the environmental score of v.
func checkEnv2(w *W, s string, v *spec.V2, kf *kfState, st *c05stats) {
	w.Eval(1)
	x := observe2(w, spec.LEnv, s)
	if !x.ok {
		return
	}
	c := decodeCase(lib.K2E, s, false)
	if !v.HasE {
		// group absent: environmental score equals the temporal score
		if x.env != x.temp {
			w.Violate(Violation{Monitor: "C05", Check: "environmental score equals the temporal score when the environmental group is absent", Case: c, Observed: x.env, Expected: x.temp})
		}
		return
	}
	exp := spec.Expect2(v)
	if exp.EnvNeg {
		st.negative.Add(1)
	}
	if len(exp.Env) > 1 {
		st.ties.Add(1)
	}
	if spec.Tables2().CapBound[v.M[spec.V2C]][v.M[spec.V2I]][v.M[spec.V2A]][v.M[spec.V2CR]][v.M[spec.V2IR]][v.M[spec.V2AR]] {
		st.capBound.Add(1)
	}
	k, grid := toTenth(x.env)
	if grid && exp.Env.Has(k) {
		return
	}
	key := adjKey(v)
	if kab, listed := kf.value(key); listed && grid {
		if spec.V2EnvFromAdj(spec.TSet{kab}, v).Has(k) {
			kf.hit(key)
			return
		}
	}
	w.Violate(Violation{Monitor: "C05", Check: "environmental score equals round1((AdjustedTemporal+(10-AdjustedTemporal)xCDP)xTD) evaluated exactly", Case: c,
		Observed: x.env, Expected: tset(exp.Env), Note: fmt.Sprintf("admissible adjusted base %v", tset(exp.AdjB))})
}

func runC05(r *Run) int {
	r.CleanOut()
	otherVersionPrelude(r, false)
	kf := newKF("C05", "KF-2")
	st := &c05stats{}
	const nKeys = 27 * 1728
	distinct := newBitset(nKeys * 30 * 101)
	if !r.Thorough() {
		// every (exploitability, adjusted-impact) key x all 30 (CDP,TD) x {no temporal, 3 seeded temporal}
		r.Parallel(nKeys, 4, func(w *W, key int) {
			rng := r.Rng(uint64(key) + 1)
			var v spec.V2
			base2(&v, key/64)
			v.HasE = true
			v.M[spec.V2CR], v.M[spec.V2IR], v.M[spec.V2AR] = int8(key%64/16), int8(key%16/4), int8(key%4)
			for ct := 0; ct < 30; ct++ {
				v.M[spec.V2CDP], v.M[spec.V2TD] = int8(ct/5), int8(ct%5)
				for j := 0; j < 4; j++ {
					ti := -1
					v.HasT = false
					if j > 0 {
						ti = rng.IntN(100)
						temporal2(&v, ti)
					}
					distinct.set((key*30+ct)*101 + ti + 1)
					checkEnv2(w, v.String(), &v, kf, st)
				}
			}
			if key%5831 == 0 {
				w.Sample(map[string]interface{}{"vector": v.String(), "admissible_env": tset(spec.Expect2(&v).Env)})
			}
		})
	} else {
		r.Parallel(nKeys*101, 4, func(w *W, i int) {
			key, ti := i/101, i%101-1
			var v spec.V2
			base2(&v, key/64)
			v.HasE = true
			v.M[spec.V2CR], v.M[spec.V2IR], v.M[spec.V2AR] = int8(key%64/16), int8(key%16/4), int8(key%4)
			if ti >= 0 {
				temporal2(&v, ti)
			}
			for ct := 0; ct < 30; ct++ {
				v.M[spec.V2CDP], v.M[spec.V2TD] = int8(ct/5), int8(ct%5)
				distinct.set((key*30+ct)*101 + ti + 1)
				checkEnv2(w, v.String(), &v, kf, st)
			}
			if i%500009 == 0 {
				w.Sample(map[string]interface{}{"vector": v.String(), "admissible_env": tset(spec.Expect2(&v).Env)})
			}
		})
	}
	// environmental group absent: env == temporal on all 73,629 vectors
	r.Parallel(nBase2*101, 32, func(w *W, idx int) {
		bi, ti := idx/101, idx%101-1
		var v spec.V2
		base2(&v, bi)
		if ti >= 0 {
			temporal2(&v, ti)
		}
		w.Count("group_absent_relation_checked")
		checkEnv2(w, v.String(), &v, kf, st)
	})
	assembled2(r, "C05")
	kf.report(r)
	r.Extra("corner_coverage", map[string]int64{
		"vectors_where_the_specification_equation_is_negative": st.negative.Load(),
		"vectors_where_min(10,.)_binds":                        st.capBound.Load(),
		"vectors_with_an_exact_half_tie":                       st.ties.Load(),
	})
	if r.Counter("valid_vector_not_decoded") > 0 || r.Counter("score_panicked") > 0 {
		r.Inconclusive("%d valid vectors were not decoded / %d queries panicked", r.Counter("valid_vector_not_decoded"), r.Counter("score_panicked"))
	}
	rule := "every one of the 27 x 1,728 = 46,656 (exploitability, adjusted-impact) keys x all 30 (CDP,TD) pairs x "
	if r.Thorough() {
		rule += "all 101 temporal states = all 141,359,040 vectors with an environmental group"
	} else {
		rule += "{temporal group absent, 3 seeded temporal combinations}"
	}
	rule += ", decoded by NewEnvironmental().Decode, plus the group-absent relation env == temporal on all 73,629 vectors; oracle = exact rational v2 environmental equations with layered admissible sets (halves either way; negative equation => that tenth or 0); distinct non-trivial = distinct (key, CDP, TD, temporal state) vectors with an environmental group (bitmap)"
	r.ProcsChildren(2000, 1, 3, 7, 14)
	return r.Finish(rule, true, distinct.count(), 1000000, 1000000, TrustedBase)
}

func replayScore2(r *Run, c Case) {
	w := r.NewW()
	defer w.Merge()
	s := c.GetInput()
	k := kindByName(c.Kind)
	level := k.Level()
	p := spec.Parse2(s, level)
	if !p.Accept {
		fmt.Println("replay: not a valid v2 vector for the model:", s, p.Defects.Names())
		return
	}
	exp := spec.Expect2(&p.V)
	x := observe2(w, level, s)
	fmt.Printf("replay %s %q: ok=%v base %v in %v | temporal %v in %v | env %v in %v (adjusted base %v)\n", c.Kind, s, x.ok, x.base, tset(exp.Base), x.temp, tset(exp.Temp), x.env, tset(exp.Env), tset(exp.AdjB))
	if !x.ok {
		return
	}
	switch r.ID {
	case "C04":
		checkBT2(w, "C04", level, s, &p.V, &exp, &x, newKF("C04", "KF-1"))
	case "C05":
		if level == spec.LEnv {
			checkEnv2(w, s, &p.V, newKF("C05", "KF-2"), &c05stats{})
		}
	}
}

// observe2SevFirst is observe2 with the opposite query order: top level before the views, severity
// before score (a severity derived from a remembered score, or a view corrupted by an earlier top-level
// query, is only visible in one of the two orders).
func observe2SevFirst(w *W, level int, s string) (x obs2) {
	k := lib.Kind2(level)
	o, err, pan := lib.DecodeAuto(k, s)
	if pan != nil || err != nil || o.IsNil() {
		w.Count("valid_vector_not_decoded")
		w.Sample(map[string]string{"not_decoded": s, "kind": k.String(), "err": lib.ErrText(err)})
		return
	}
	x.o = o
	q := func(v lib.Obj) (float64, string, bool) {
		_, sv, p1 := v.Severity()
		f, p2 := v.Score()
		if p1 != nil || p2 != nil {
			w.Count("score_panicked")
			return 0, "", false
		}
		return f, sv, true
	}
	var ok bool
	switch level {
	case spec.LBase:
		if x.base, x.bSev, ok = q(o); !ok {
			return
		}
	case spec.LTemp:
		if x.temp, x.tSev, ok = q(o); !ok {
			return
		}
		bv, _, pp := o.BaseView()
		if pp != nil || bv.IsNil() {
			w.Count("base_view_unavailable")
			return
		}
		if x.base, x.bSev, ok = q(bv); !ok {
			return
		}
		if eb, ok2 := o.EmbeddedBase(); ok2 && !eb.IsNil() {
			x.embBase, _ = eb.Score()
			x.hasEmbBase = true
		}
		x.tEmpty, _, _ = o.IsEmpty()
	case spec.LEnv:
		if x.env, x.eSev, ok = q(o); !ok {
			return
		}
		bv, _, pp := o.BaseView()
		tv, _, pp2 := o.TemporalView()
		if pp != nil || pp2 != nil || bv.IsNil() || tv.IsNil() {
			w.Count("view_unavailable")
			return
		}
		if x.temp, x.tSev, ok = q(tv); !ok {
			return
		}
		if x.base, x.bSev, ok = q(bv); !ok {
			return
		}
		if eb, ok2 := o.EmbeddedBase(); ok2 && !eb.IsNil() {
			x.embBase, _ = eb.Score()
			x.hasEmbBase = true
		}
		if et, ok2 := o.EmbeddedTemporal(); ok2 && !et.IsNil() {
			x.embTemp, _ = et.Score()
			x.hasEmbT = true
		}
		x.tEmpty, _, _ = tv.IsEmpty()
		x.eEmpty, _, _ = o.IsEmpty()
	}
	x.ok = true
	return
}

// assembled2 checks v2 objects put together from separately decoded parts (the embedded decoder of a
// constructor result used directly; an embedded pointer replaced by a decoded object; a literal around one):
// with the upper group absent, the upper level's score must be the lower level's score.
func assembled2(r *Run, prop string) {
	hows := []string{"constructor result whose embedded decoder decoded the vector", "constructor result with its embedded pointer replaced by a decoded object", "struct literal around a decoded object"}
	r.Parallel(nBase2*101, 32, func(w *W, idx int) {
		bi, ti := idx/101, idx%101-1
		var v spec.V2
		base2(&v, bi)
		if ti >= 0 {
			temporal2(&v, ti)
		}
		s := v.String()
		k := lib.K2E
		if prop == "C04" {
			if ti >= 0 {
				return
			}
			k = lib.K2T
		}
		ref, err, _ := lib.Decode(lib.Kind(int(k)-1), s, false)
		if err != nil || ref.IsNil() {
			return
		}
		want, _ := ref.Score()
		for how := 0; how < 3; how++ {
			o, ok, pan := lib.Assemble(k, s, how)
			w.Eval(1)
			w.Count("assembled_objects")
			if pan != nil || !ok {
				w.Count("assembled_object_unavailable")
				continue
			}
			got, _ := o.Score()
			if got != want {
				c := decodeCase(k, s, false)
				c.Args = map[string]string{"assembled": hows[how]}
				w.Violate(Violation{Monitor: prop, Check: "an object assembled from a separately decoded lower-level part scores like that part when its own group is absent", Case: c, Observed: got, Expected: want})
			}
		}
	})
}
