package mon

import (
	"fmt"
	"math/rand/v2"
	"regexp"
	"strconv"
	"sync/atomic"

	m3 "github.com/goark/go-cvss/v3/metric"
	"github.com/goark/go-cvss/v3/report"
	"golang.org/x/text/language"

	"verif/harness/lib"
	"verif/harness/spec"
)

func init() {
	register(&Monitor{ID: "C06", Title: "scores on the tenth grid, severity = band of the score", Run: runC06, Replay: replayC06})
	register(&Monitor{ID: "C13", Title: "Not Defined is score-neutral; temporal <= base", Run: runC13, Replay: replayC13})
}

var scoreFmt = regexp.MustCompile(`^\d+(\.\d)?$`)

// fmtOK is scoreFmt.MatchString without the regexp cost.
func fmtOK(t string) bool {
	i := 0
	for i < len(t) && t[i] >= '0' && t[i] <= '9' {
		i++
	}
	if i == 0 {
		return false
	}
	if i == len(t) {
		return true
	}
	return len(t) == i+2 && t[i] == '.' && t[i+1] >= '0' && t[i+1] <= '9'
}

// gridState records which tenths were observed per version x level.
type gridState struct {
	seen     [6][101]atomic.Bool
	negZero  atomic.Int64
	crossLvl atomic.Int64 // objects whose levels fall into different bands
}

func (g *gridState) summary() map[string]interface{} {
	out := map[string]interface{}{}
	edges := []int{0, 1, 39, 40, 69, 70, 89, 90, 100}
	for k := 0; k < 6; k++ {
		n := 0
		missing := []float64{}
		for t := 0; t <= 100; t++ {
			if g.seen[k][t].Load() {
				n++
			} else {
				missing = append(missing, float64(t)/10)
			}
		}
		ed := map[string]bool{}
		for _, e := range edges {
			ed[strconv.FormatFloat(float64(e)/10, 'f', 1, 64)] = g.seen[k][e].Load()
		}
		out[lib.Kind(k).String()] = map[string]interface{}{"distinct_tenths_observed": n, "tenths_never_observed": missing, "band_edges_observed": ed}
	}
	return out
}

// attainableVsObserved compares, per decoder type, the set of tenths the reference model says are
// attainable over the whole valid domain with the set actually observed in this run.
func attainableVsObserved(g *gridState) map[string]interface{} {
	var att [6][101]bool
	t3 := spec.Tables3()
	var base3 [101]bool
	for av := 0; av < 4; av++ {
		for ac := 0; ac < 2; ac++ {
			for pr := 0; pr < 3; pr++ {
				for ui := 0; ui < 2; ui++ {
					for s := 0; s < 2; s++ {
						for cia := 0; cia < 27; cia++ {
							base3[t3.Base[av][ac][pr][ui][s][cia/9][cia/3%3][cia%3]] = true
							for ver := 0; ver < 2; ver++ {
								for req := 0; req < 27; req++ {
									inner := t3.EnvInner[ver][av][ac][pr][ui][s][cia][req]
									for ti := 0; ti < 100; ti++ {
										att[lib.K3E][t3.Temp[inner][ti/20][ti/4%5][ti%4]] = true
									}
								}
							}
						}
					}
				}
			}
		}
	}
	for b := 0; b <= 100; b++ {
		if base3[b] {
			att[lib.K3B][b] = true
			for ti := 0; ti < 100; ti++ {
				att[lib.K3T][t3.Temp[b][ti/20][ti/4%5][ti%4]] = true
			}
		}
	}
	// v2: union of the admissible sets (ties make both neighbours attainable)
	mark := func(k lib.Kind, set spec.TSet) {
		for _, x := range set {
			if x >= 0 && x <= 100 {
				att[k][x] = true
			}
		}
	}
	for bi := 0; bi < nBase2; bi++ {
		var v spec.V2
		base2(&v, bi)
		for ti := -1; ti < 100; ti++ {
			v.HasT = false
			if ti >= 0 {
				temporal2(&v, ti)
			}
			v.HasE = false
			e := spec.Expect2(&v)
			mark(lib.K2B, e.Base)
			mark(lib.K2T, e.Temp)
			mark(lib.K2E, e.Env)
			v.HasE = true
			for req := 0; req < 64; req++ {
				v.M[spec.V2CR], v.M[spec.V2IR], v.M[spec.V2AR] = int8(req/16), int8(req%16/4), int8(req%4)
				adj := spec.Tables2().Adj[v.M[0]][v.M[1]][v.M[2]][v.M[3]][v.M[4]][v.M[5]][v.M[spec.V2CR]][v.M[spec.V2IR]][v.M[spec.V2AR]]
				at := adj
				if v.HasT {
					at = spec.V2TemporalSet(adj, int(v.M[spec.V2E]), int(v.M[spec.V2RL]), int(v.M[spec.V2RC]))
				}
				for ct := 0; ct < 30; ct++ {
					set, _ := spec.V2EnvSet(at, ct/5, ct%5)
					mark(lib.K2E, set)
				}
			}
		}
	}
	out := map[string]interface{}{}
	for k := lib.Kind(0); k < lib.NKinds; k++ {
		notObs, notAtt := []float64{}, []float64{}
		n := 0
		for t := 0; t <= 100; t++ {
			if att[k][t] {
				n++
			}
			if att[k][t] && !g.seen[k][t].Load() {
				notObs = append(notObs, float64(t)/10)
			}
			if !att[k][t] && g.seen[k][t].Load() {
				notAtt = append(notAtt, float64(t)/10)
			}
		}
		out[k.String()] = map[string]interface{}{"attainable_per_model": n, "attainable_but_not_observed": notObs, "observed_but_not_attainable_per_model": notAtt}
	}
	return out
}

// checkGrid checks one (score, severity) pair.  exempt: v2 environmental
// result whose exact adjusted base is negative.
func checkGrid(w *W, g *gridState, kind lib.Kind, mk func() Case, score float64, sev string, exempt bool) (band string) {
	w.Eval(1)
	k, grid := toTenth(score)
	if exempt {
		if !grid || k > 100 {
			w.Violate(Violation{Monitor: "C06", Check: "exempt v2 environmental score is still a tenth (negative tenth or 0 allowed)", Case: mk(), Observed: score})
		}
		w.Count("exempt_negative_equation")
		return ""
	}
	if !grid {
		w.Violate(Violation{Monitor: "C06", Check: "score is a multiple of 0.1", Case: mk(), Observed: score, Expected: "k/10"})
		return ""
	}
	if k < 0 || k > 100 {
		w.Violate(Violation{Monitor: "C06", Check: "0.0 <= score <= 10.0", Case: mk(), Observed: score})
		return ""
	}
	txt := strconv.FormatFloat(score, 'f', -1, 64)
	if txt == "-0" {
		g.negZero.Add(1)
		txt = "0"
	}
	if !fmtOK(txt) {
		w.Violate(Violation{Monitor: "C06", Check: "score prints with at most one decimal digit", Case: mk(), Observed: txt})
	}
	g.seen[kind][k].Store(true)
	if kind.V2() {
		band = spec.Sev2(k)
	} else {
		band = spec.Sev3(k)
	}
	if sev != band {
		w.Violate(Violation{Monitor: "C06", Check: "severity is the band containing this level's score", Case: mk(), Observed: fmt.Sprintf("score %v severity %s", score, sev), Expected: band})
	}
	w.Distinct("score_band", uint64(kind)*1000+uint64(k))
	return band
}

func sev3(o lib.Obj) string { _, s, _ := o.Severity(); return s }

// scoreSev queries score and severity of o; sevFirst asks for the severity first (a severity derived from
// a remembered score would then be stale).
func scoreSev(o lib.Obj, sevFirst bool) (float64, string) {
	if sevFirst {
		s := sev3(o)
		f, _ := o.Score()
		return f, s
	}
	f, _ := o.Score()
	return f, sev3(o)
}

// checkGrid3Obj checks all levels reachable from a v3 object.
func checkGrid3Obj(w *W, g *gridState, o lib.Obj, c func() Case) {
	var bands []string
	sevFirst := w.Evals%2 == 1 // alternate the query order
	if o.Kind == lib.K3E && sevFirst {
		// top level first, then the views
		f, sv := scoreSev(o, true)
		bands = append(bands, checkGrid(w, g, lib.K3E, c, f, sv, false))
	}
	bv, _, _ := o.BaseView()
	if !bv.IsNil() {
		f, sv := scoreSev(bv, sevFirst)
		bands = append(bands, checkGrid(w, g, lib.K3B, c, f, sv, false))
	}
	switch o.Kind {
	case lib.K3T:
		f, sv := scoreSev(o, sevFirst)
		bands = append(bands, checkGrid(w, g, lib.K3T, c, f, sv, false))
	case lib.K3E:
		tv, _, _ := o.TemporalView()
		if !tv.IsNil() {
			f, sv := scoreSev(tv, sevFirst)
			bands = append(bands, checkGrid(w, g, lib.K3T, c, f, sv, false))
		}
		if !sevFirst {
			f, sv := scoreSev(o, false)
			bands = append(bands, checkGrid(w, g, lib.K3E, c, f, sv, false))
		}
	}
	for i := 1; i < len(bands); i++ {
		if bands[i] != bands[0] {
			g.crossLvl.Add(1)
			break
		}
	}
}

var langs3 = []language.Tag{language.English, language.Japanese, language.French}

// checkReportScores checks the score / severity-independent formatting of the
// three report levels of a decoded environmental object.
var engSev = map[string]string{"None": "None", "Low": "Low", "Medium": "Medium", "High": "High", "Critical": "Critical"}

func checkReportScores(w *W, e *m3.Environmental, c Case) {
	defer func() {
		if r := recover(); r != nil {
			w.Count("report_panicked")
		}
	}()
	// the score fields are plain decimal numbers whatever language the report is in; the severity name is the
	// English one for every language but Japanese
	lang := []language.Tag{language.English, language.English, language.Japanese, language.German, language.French, language.Arabic, language.Persian, language.Russian, language.Hindi, language.Bengali, language.MustParse("ar-EG"), language.MustParse("de-CH"), language.MustParse("mr"), language.MustParse("my")}[Hash(c.Input)>>9%14]
	if Hash(c.Input)%4 == 0 {
		// a client that edits the report it received (redacting, decorating): the next report of the same
		// vector is built from the metrics again, not from what the client did to the earlier one
		lib.Report{Level: 2, E: report.NewEnvironmental(e, report.WithOptionsLanguage(lang))}.Scribble()
		w.Count("reports_built_after_an_earlier_report_of_the_vector_was_overwritten_by_the_client")
	}
	rep := report.NewEnvironmental(e, report.WithOptionsLanguage(lang))
	sevWant := engSev
	if lang == language.Japanese {
		sevWant = nil
	}
	if s, ok := sevWant[e.Severity().String()]; ok && rep.SeverityValue != s {
		w.Violate(Violation{Monitor: "C06", Check: "report severity field is the English name of the object's severity", Case: c, Observed: rep.SeverityValue, Expected: s})
	}
	for _, f := range []struct {
		name, got string
		want      float64
	}{
		{"BaseScore", rep.BaseScore, e.BaseMetrics().Score()},
		{"TemporalScore", rep.TemporalScore, e.TemporalMetrics().Score()},
		{"EnvironmentalScore", rep.EnvironmentalScore, e.Score()},
	} {
		w.Eval(1)
		if !scoreFmt.MatchString(f.got) {
			w.Violate(Violation{Monitor: "C06", Check: "report score field prints with at most one decimal digit", Case: c, Observed: f.name + "=" + f.got})
		}
		if f.got != strconv.FormatFloat(f.want, 'f', -1, 64) {
			w.Violate(Violation{Monitor: "C06", Check: "report score field is the decimal rendering of that level's score", Case: c, Observed: f.name + "=" + f.got, Expected: f.want})
		}
	}
}

func runC06(r *Run) int {
	r.CleanOut()
	g := &gridState{}
	// v3 base: all 5,184 at the base decoder
	r.Parallel(2*nBase3, 32, func(w *W, idx int) {
		v := newV3(idx/nBase3, idx%nBase3)
		s := render3(&v, spec.LBase, nil)
		o, err, pan := lib.DecodeAuto(lib.K3B, s)
		if err != nil || pan != nil || o.IsNil() {
			w.Count("valid_vector_not_decoded")
			return
		}
		checkGrid3Obj(w, g, o, func() Case { return decodeCase(lib.K3B, s, false) })
	})
	r.Phase("v3 base")
	// v3 temporal: all 518,400 at the temporal decoder
	r.Parallel(2*nBase3*100, 64, func(w *W, idx int) {
		v := newV3(idx/100/nBase3, idx/100%nBase3)
		temporal3(&v, idx%100)
		s := render3(&v, spec.LTemp, nil)
		o, err, pan := lib.DecodeAuto(lib.K3T, s)
		if err != nil || pan != nil || o.IsNil() {
			w.Count("valid_vector_not_decoded")
			return
		}
		checkGrid3Obj(w, g, o, func() Case { return decodeCase(lib.K3T, s, false) })
		if idx%49999 == 0 {
			f, _ := o.Score()
			w.Sample(map[string]interface{}{"vector": s, "score": f, "severity": sev3(o)})
		}
	})
	r.Phase("v3 temporal")
	// v3 environmental: the full effective x temporal product on built objects
	r.Parallel(nEff3, 8, func(w *W, key int) {
		rng := r.Rng(uint64(key) + 1)
		e := m3.NewEnvironmental()
		o := lib.Obj{Kind: lib.K3E, E3: e}
		for ti := 0; ti < 100; ti++ {
			v := represent3(key, ti, rng, nil)
			lib.Fill3(e, &v)
			checkGrid3Obj(w, g, o, func() Case { return structCase(&v) })
		}
	})
	// v3 environmental objects without any environmental metric: all 518,400
	r.Parallel(2*nBase3, 8, func(w *W, idx int) {
		e := m3.NewEnvironmental()
		o := lib.Obj{Kind: lib.K3E, E3: e}
		for ti := 0; ti < 100; ti++ {
			v := newV3(idx/nBase3, idx%nBase3)
			temporal3(&v, ti)
			for m := spec.CR; m <= spec.MA; m++ {
				v.M[m] = 0
			}
			lib.Fill3(e, &v)
			checkGrid3Obj(w, g, o, func() Case { return structCase(&v) })
			if (idx+ti)%16 == 0 {
				s := render3(&v, spec.LEnv, nil)
				if d, err, pan := lib.DecodeAuto(lib.K3E, s); err == nil && pan == nil && !d.IsNil() {
					checkGrid3Obj(w, g, d, func() Case { return decodeCase(lib.K3E, s, false) })
				}
			}
		}
	})
	// v3 objects that are by-value copies of an already rated object with their fields overwritten, and several
	// Temporal literals built around one shared Base (a what-if loop over E/RL/RC)
	r.Parallel(r.Pick(20000, 200000), 16, func(w *W, i int) {
		rng := r.Rng(uint64(i) + 1<<47)
		va := represent3(rng.IntN(nEff3), rng.IntN(100), rng, nil)
		vb := represent3(rng.IntN(nEff3), rng.IntN(100), rng, nil)
		o, err, pan := lib.DecodeAuto(lib.K3E, render3(&va, spec.LEnv, nil))
		if err != nil || pan != nil || o.IsNil() {
			return
		}
		scoreSev(o, i%2 == 0) // rate the original first
		if tv, ok, _ := o.TemporalView(); ok && !tv.IsNil() {
			scoreSev(tv, i%2 == 1)
		}
		c := lib.CopyOf(o)
		// the copy shares the embedded pointers with the original: give it its own lower levels for one half
		if i%4 < 2 {
			t := *c.E3.Temporal
			b := *t.Base
			t.Base = &b
			c.E3.Temporal = &t
		}
		lib.Fill3(c.E3, &vb)
		checkGrid3Obj(w, g, c, func() Case {
			cs := structCase(&vb)
			cs.Args = map[string]string{"origin": "by-value copy of an already rated object decoded from " + render3(&va, spec.LEnv, nil) + ", fields overwritten on the copy"}
			return cs
		})
		// Temporal literals around one shared Base
		bo, berr, _ := lib.DecodeAuto(lib.K3B, render3(&va, spec.LBase, nil))
		if berr != nil || bo.IsNil() {
			return
		}
		for j := 0; j < 3; j++ {
			tl := &m3.Temporal{Base: bo.B3, E: m3.Exploitability(lib.C3[spec.E][rng.IntN(5)]), RL: m3.RemediationLevel(lib.C3[spec.RL][rng.IntN(5)]), RC: m3.ReportConfidence(lib.C3[spec.RC][rng.IntN(4)])}
			lo := lib.Obj{Kind: lib.K3T, T3: tl}
			checkGrid3Obj(w, g, lo, func() Case {
				return Case{Type: "v3struct", Kind: lib.K3T.String(), Input: render3(&va, spec.LBase, nil), Args: map[string]string{"origin": fmt.Sprintf("Temporal literal #%d around a Base shared with earlier literals", j)}}
			})
		}
	})
	r.Phase("v3 environmental product")
	// v3 reports: score fields of decoded environmental vectors
	nRep := r.Pick(20000, 300000)
	r.Parallel(nRep, 64, func(w *W, i int) {
		rng := r.Rng(uint64(i) + 1<<40)
		v := represent3(rng.IntN(nEff3), rng.IntN(100), rng, nil)
		s := render3(&v, spec.LEnv, nil)
		o, err, pan := lib.DecodeAuto(lib.K3E, s)
		if err != nil || pan != nil || o.IsNil() {
			w.Count("valid_vector_not_decoded")
			return
		}
		checkReportScores(w, o.E3, decodeCase(lib.K3E, s, false))
	})
	r.Phase("v3 reports")
	// v2 base/temporal: all 73,629 at every admitting decoder
	r.Parallel(nBase2*101, 32, func(w *W, idx int) {
		bi, ti := idx/101, idx%101-1
		var v spec.V2
		base2(&v, bi)
		if ti >= 0 {
			temporal2(&v, ti)
		}
		s := v.String()
		for level := v.MinLevel(); level <= spec.LEnv; level++ {
			x := observe2(w, level, s)
			if !x.ok {
				continue
			}
			c := func() Case { return decodeCase(lib.Kind2(level), s, false) }
			b := checkGrid(w, g, lib.K2B, c, x.base, x.bSev, false)
			if level >= spec.LTemp {
				t := checkGrid(w, g, lib.K2T, c, x.temp, x.tSev, false)
				if t != b {
					g.crossLvl.Add(1)
				}
			}
			if level == spec.LEnv {
				checkGrid(w, g, lib.K2E, c, x.env, x.eSev, false)
			}
		}
	})
	r.Phase("v2 base/temporal")
	// v2 environmental
	const nKeys = 27 * 1728
	perKey := r.Pick(2, 101)
	r.Parallel(nKeys, 4, func(w *W, key int) {
		rng := r.Rng(uint64(key) + 1<<41)
		var v spec.V2
		base2(&v, key/64)
		v.HasE = true
		v.M[spec.V2CR], v.M[spec.V2IR], v.M[spec.V2AR] = int8(key%64/16), int8(key%16/4), int8(key%4)
		for ct := 0; ct < 30; ct++ {
			v.M[spec.V2CDP], v.M[spec.V2TD] = int8(ct/5), int8(ct%5)
			for j := 0; j < perKey; j++ {
				v.HasT = false
				if r.Thorough() {
					if j > 0 {
						temporal2(&v, j-1)
					}
				} else if j > 0 {
					temporal2(&v, rng.IntN(100))
				}
				s := v.String()
				x := observe2(w, spec.LEnv, s)
				if !x.ok {
					continue
				}
				// exemption exactly as stated: the specification's own environmental equation is negative
				neg := spec.Expect2(&v).EnvNeg
				c := func() Case { return decodeCase(lib.K2E, s, false) }
				e := checkGrid(w, g, lib.K2E, c, x.env, x.eSev, neg)
				t := checkGrid(w, g, lib.K2T, c, x.temp, x.tSev, false)
				if e != "" && e != t {
					g.crossLvl.Add(1)
				}
			}
		}
		if key%7919 == 0 {
			w.Sample(map[string]interface{}{"vector": v.String(), "exempt_negative_equation": spec.Expect2(&v).EnvNeg})
		}
	})
	r.Phase("v2 environmental")
	r.Extra("per_decoder_score_coverage", g.summary())
	r.Extra("model_attainable_vs_observed_tenths", attainableVsObserved(g))
	r.Extra("objects_whose_levels_fall_into_different_bands", g.crossLvl.Load())
	r.Extra("negative_zero_scores_observed_(numerically_0)", g.negZero.Load())
	if r.Counter("valid_vector_not_decoded") > 0 || r.Counter("score_panicked") > 0 {
		r.Inconclusive("%d valid vectors were not decoded / %d queries panicked", r.Counter("valid_vector_not_decoded"), r.Counter("score_panicked"))
	}
	r.ProcsChildren(2000, 1, 3, 7, 14)
	return r.Finish("rider on the C01-C05 enumerations: all 5,184 v3 base vectors, all 518,400 v3 temporal vectors, the full v3 effective x temporal environmental product and all 518,400 environmental objects without environmental metrics (base/temporal/environmental level of each object), by-value copies of rated objects with overwritten fields and Temporal literals sharing one Base, report score fields of decoded environmental vectors, all 73,629 v2 base/temporal vectors at every admitting decoder, and every v2 (exploitability, adjusted impact) key x 30 (CDP,TD) x temporal states; each (score, severity) pair checked for grid, range, printing and band; distinct non-trivial = distinct (decoder type, score value) pairs observed",
		true, int64(r.SetSize("score_band")), 1000000, 300, TrustedBase)
}

func replayC06(r *Run, c Case) {
	w := r.NewW()
	defer w.Merge()
	g := &gridState{}
	s := c.GetInput()
	k := kindByName(c.Kind)
	switch {
	case c.Type == "v3struct":
		p := spec.Parse3(s, spec.LEnv)
		if p.Accept {
			checkGrid3Obj(w, g, lib.Obj{Kind: lib.K3E, E3: lib.Build3(&p.V)}, func() Case { return c })
		}
	case !k.V2():
		o, err, _ := lib.DecodeAuto(k, s)
		if err == nil && !o.IsNil() {
			checkGrid3Obj(w, g, o, func() Case { return c })
			if k == lib.K3E {
				checkReportScores(w, o.E3, c)
			}
			f, _ := o.Score()
			fmt.Printf("replay %s %q: score %v severity %s\n", c.Kind, s, f, sev3(o))
		}
	default:
		x := observe2(w, k.Level(), s)
		if x.ok {
			p := spec.Parse2(s, k.Level())
			neg := p.Accept && spec.Expect2(&p.V).EnvNeg
			mk := func() Case { return c }
			checkGrid(w, g, lib.K2B, mk, x.base, x.bSev, false)
			if k.Level() >= spec.LTemp {
				checkGrid(w, g, lib.K2T, mk, x.temp, x.tSev, false)
			}
			if k.Level() == spec.LEnv {
				checkGrid(w, g, lib.K2E, mk, x.env, x.eSev, neg)
			}
			fmt.Printf("replay %s %q: base %v %s temporal %v %s env %v %s exempt=%v\n", c.Kind, s, x.base, x.bSev, x.temp, x.tSev, x.env, x.eSev, neg)
		}
	}
}

// ---------------------------------------------------------------------------
// C13
// ---------------------------------------------------------------------------

func runC13(r *Run) int {
	r.CleanOut()
	var nontrivial atomic.Int64
	// (i) v3: temporal with E/RL/RC all Not Defined == base, every spelling subset
	r.Parallel(2*nBase3, 16, func(w *W, idx int) {
		v := newV3(idx/nBase3, idx%nBase3)
		for mask := 0; mask < 8; mask++ {
			vv := v
			for j, m := range []int{spec.E, spec.RL, spec.RC} {
				if mask>>j&1 == 1 {
					vv.M[m] = 0
				}
			}
			for level := spec.LTemp; level <= spec.LEnv; level++ {
				var sh *rand.Rand
				if (mask+level)%2 == 1 {
					sh = r.Rng(uint64(idx*16+mask) + 1<<46)
				}
				s := render3(&vv, level, sh)
				w.Eval(1)
				b, t, _, ok := obsScores3(w, level, s)
				if ok && b != t {
					w.Violate(Violation{Monitor: "C13", Check: "(i) temporal score with E,RL,RC all Not Defined equals the base score", Case: decodeCase(lib.Kind3(level), s, false), Observed: t, Expected: b})
				}
				if ok && b > 0 {
					nontrivial.Add(1)
				}
			}
		}
	})
	// (i) v2
	r.Parallel(nBase2, 8, func(w *W, bi int) {
		var v spec.V2
		base2(&v, bi)
		for _, withT := range []bool{false, true} {
			v.HasT = withT
			v.M[spec.V2E], v.M[spec.V2RL], v.M[spec.V2RC] = 4, 4, 3 // ND
			s := v.String()
			for level := spec.LTemp; level <= spec.LEnv; level++ {
				w.Eval(1)
				x := observe2(w, level, s)
				if x.ok && x.base != x.temp {
					w.Violate(Violation{Monitor: "C13", Check: "(i) v2 temporal score with E,RL,RC all ND (or absent) equals the base score", Case: decodeCase(lib.Kind2(level), s, false), Observed: x.temp, Expected: x.base})
				}
				if x.ok && x.base > 0 {
					nontrivial.Add(1)
				}
			}
		}
	})
	// (ii) v3 environmental all Not Defined == temporal (except S:C under 3.1); (iv) temporal <= base
	var skipped31C atomic.Int64
	r.Parallel(2*nBase3*100, 64, func(w *W, idx int) {
		ver := idx / 100 / nBase3
		v := newV3(ver, idx/100%nBase3)
		temporal3(&v, idx%100)
		rng := r.Rng(uint64(idx) + 1)
		for m := spec.CR; m <= spec.MA; m++ {
			if rng.IntN(2) == 0 {
				v.M[m] = 0
			}
		}
		respell(&v, spec.LTemp, rng)
		var sh *rand.Rand
		if idx%2 == 1 { // every second vector in a random token order
			sh = rng
		}
		s := render3(&v, spec.LEnv, sh)
		w.Eval(1)
		b, t, e, ok := obsScores3(w, spec.LEnv, s)
		if !ok {
			return
		}
		if t > b {
			w.Violate(Violation{Monitor: "C13", Check: "(iv) temporal score never exceeds the base score", Case: decodeCase(lib.K3E, s, false), Observed: t, Expected: fmt.Sprintf("<= %v", b)})
		}
		if ver == 1 && v.M[spec.S] == 1 {
			skipped31C.Add(1)
		} else if e != t {
			w.Violate(Violation{Monitor: "C13", Check: "(ii) environmental score with all environmental metrics Not Defined equals the temporal score", Case: decodeCase(lib.K3E, s, false), Observed: e, Expected: t})
		}
		if t != b {
			nontrivial.Add(1)
		}
		if idx%40009 == 0 {
			w.Sample(map[string]interface{}{"vector": s, "base": b, "temporal": t, "environmental": e})
		}
	})
	// (ii') the same metrics scored as v3.1 and then immediately as v3.0 (and the other way round) on one
	// goroutine, and on a decoder object used twice (checked only if the library accepts the second decode)
	r.Parallel(nBase3*100/4, 64, func(w *W, i int) {
		idx := i * 4
		rng := r.Rng(uint64(idx) + 1<<43)
		for pass := 0; pass < 2; pass++ {
			for _, ver := range [][2]int{{1, 0}, {0, 1}}[pass] {
				v := newV3(ver, idx/100%nBase3)
				temporal3(&v, idx%100)
				s := render3(&v, spec.LEnv, nil)
				w.Eval(1)
				b, t, e, ok := obsScores3(w, spec.LEnv, s)
				if !ok {
					continue
				}
				if t > b {
					w.Violate(Violation{Monitor: "C13", Check: "(iv) temporal score never exceeds the base score", Case: decodeCase(lib.K3E, s, false), Observed: t, Expected: fmt.Sprintf("<= %v", b)})
				}
				if !(ver == 1 && v.M[spec.S] == 1) && e != t {
					w.Violate(Violation{Monitor: "C13", Check: "(ii) environmental score with all environmental metrics Not Defined equals the temporal score (the other version of the same metrics scored just before)", Case: decodeCase(lib.K3E, s, false), Observed: e, Expected: t})
				}
			}
		}
		_ = rng
	})
	r.Extra("v3.1_scope_changed_vectors_without_constraint_(ii)", skipped31C.Load())
	// (iv) v2: temporal <= base on all 73,629
	r.Parallel(nBase2*101, 32, func(w *W, idx int) {
		bi, ti := idx/101, idx%101-1
		var v spec.V2
		base2(&v, bi)
		if ti >= 0 {
			temporal2(&v, ti)
		}
		s := v.String()
		level := spec.LTemp + idx%2
		w.Eval(1)
		x := observe2(w, level, s)
		if x.ok && x.temp > x.base {
			w.Violate(Violation{Monitor: "C13", Check: "(iv) v2 temporal score never exceeds the base score", Case: decodeCase(lib.Kind2(level), s, false), Observed: x.temp, Expected: fmt.Sprintf("<= %v", x.base)})
		}
		if x.ok && x.temp != x.base {
			nontrivial.Add(1)
		}
	})
	// (iii) v2 environmental with TD:N == 0
	const nKeys = 27 * 1728
	perKey := r.Pick(4, 101)
	r.Parallel(nKeys, 4, func(w *W, key int) {
		rng := r.Rng(uint64(key) + 1<<41)
		var v spec.V2
		base2(&v, key/64)
		v.HasE = true
		v.M[spec.V2CR], v.M[spec.V2IR], v.M[spec.V2AR] = int8(key%64/16), int8(key%16/4), int8(key%4)
		v.M[spec.V2TD] = 0 // N
		for cdp := 0; cdp < 6; cdp++ {
			v.M[spec.V2CDP] = int8(cdp)
			for j := 0; j < perKey; j++ {
				v.HasT = false
				if r.Thorough() {
					if j > 0 {
						temporal2(&v, j-1)
					}
				} else if j > 0 {
					temporal2(&v, rng.IntN(100))
				}
				s := v.String()
				w.Eval(1)
				x := observe2(w, spec.LEnv, s)
				if x.ok && x.env != 0 {
					w.Violate(Violation{Monitor: "C13", Check: "(iii) v2 environmental score with Target Distribution None is 0", Case: decodeCase(lib.K2E, s, false), Observed: x.env, Expected: 0})
				}
				if x.ok && x.temp > 0 {
					nontrivial.Add(1)
				}
			}
		}
	})
	if r.Counter("valid_vector_not_decoded") > 0 || r.Counter("score_panicked") > 0 {
		r.Inconclusive("%d valid vectors were not decoded / %d queries panicked", r.Counter("valid_vector_not_decoded"), r.Counter("score_panicked"))
	}
	r.ProcsChildren(6000, 1, 3, 7, 14)
	return r.Finish("relations between scores of one decoded vector: (i) all 5,184 v3 base vectors x 8 spell/omit patterns of X at the temporal and environmental decoder, all 729 v2 base vectors with ND group / absent group; (ii)+(iv) all 518,400 v3 temporal vectors at the environmental decoder with environmental metrics X (randomly spelled or omitted); (iv) all 73,629 v2 vectors; (iii) every v2 (exploitability, adjusted impact) key x 6 CDP x temporal states with TD:N; non-trivial = cases where the related scores are non-zero / differ (counted occurrences, all distinct vectors)",
		true, nontrivial.Load(), 500000, 100000, TrustedBase)
}

func replayC13(r *Run, c Case) {
	s := c.GetInput()
	k := kindByName(c.Kind)
	w := r.NewW()
	defer w.Merge()
	if !k.V2() {
		b, t, e, ok := obsScores3(w, k.Level(), s)
		fmt.Printf("replay %s %q ok=%v base=%v temporal=%v env=%v\n", c.Kind, s, ok, b, t, e)
		p := spec.Parse3(s, k.Level())
		if !ok || !p.Accept {
			return
		}
		if t > b {
			w.Violate(Violation{Monitor: "C13", Check: "(iv) temporal <= base", Case: c, Observed: t, Expected: b})
		}
		if p.V.Val(spec.E) == 0 && p.V.Val(spec.RL) == 0 && p.V.Val(spec.RC) == 0 && k.Level() >= spec.LTemp && t != b {
			w.Violate(Violation{Monitor: "C13", Check: "(i) temporal == base", Case: c, Observed: t, Expected: b})
		}
		allX := true
		for m := spec.CR; m <= spec.MA; m++ {
			if p.V.Val(m) != 0 {
				allX = false
			}
		}
		if k == lib.K3E && allX && !(p.V.Ver == 1 && p.V.M[spec.S] == 1) && e != t {
			w.Violate(Violation{Monitor: "C13", Check: "(ii) env == temporal", Case: c, Observed: e, Expected: t})
		}
		return
	}
	x := observe2(w, k.Level(), s)
	fmt.Printf("replay %s %q ok=%v base=%v temporal=%v env=%v\n", c.Kind, s, x.ok, x.base, x.temp, x.env)
	p := spec.Parse2(s, k.Level())
	if !x.ok || !p.Accept {
		return
	}
	if k.Level() >= spec.LTemp && x.temp > x.base {
		w.Violate(Violation{Monitor: "C13", Check: "(iv) temporal <= base", Case: c, Observed: x.temp, Expected: x.base})
	}
	if k.Level() >= spec.LTemp && (!p.V.HasT || (p.V.M[spec.V2E] == 4 && p.V.M[spec.V2RL] == 4 && p.V.M[spec.V2RC] == 3)) && x.temp != x.base {
		w.Violate(Violation{Monitor: "C13", Check: "(i) temporal == base", Case: c, Observed: x.temp, Expected: x.base})
	}
	if p.V.HasE && p.V.M[spec.V2TD] == 0 && x.env != 0 {
		w.Violate(Violation{Monitor: "C13", Check: "(iii) TD:N => 0", Case: c, Observed: x.env, Expected: 0})
	}
}

var _ = langs3
