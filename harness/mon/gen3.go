package mon

import (
	"math/rand/v2"
	"strings"

	"verif/harness/spec"
)

// nBase3 is the number of v3 base combinations per version.
const nBase3 = 4 * 2 * 3 * 2 * 2 * 3 * 3 * 3 // 2592

// base3 fills the base metrics of v from a combination index 0..2591.
func base3(v *spec.V3, idx int) {
	a := idx % 3
	idx /= 3
	i := idx % 3
	idx /= 3
	c := idx % 3
	idx /= 3
	s := idx % 2
	idx /= 2
	ui := idx % 2
	idx /= 2
	pr := idx % 3
	idx /= 3
	ac := idx % 2
	idx /= 2
	av := idx % 4
	v.M[spec.AV], v.M[spec.AC], v.M[spec.PR], v.M[spec.UI] = int8(av), int8(ac), int8(pr), int8(ui)
	v.M[spec.S], v.M[spec.C], v.M[spec.I], v.M[spec.A] = int8(s), int8(c), int8(i), int8(a)
}

// newV3 returns a vector with all optional metrics unwritten.
func newV3(ver, baseIdx int) spec.V3 {
	var v spec.V3
	v.Ver = ver
	for i := range v.M {
		v.M[i] = -1
	}
	base3(&v, baseIdx)
	return v
}

// temporal3 sets E/RL/RC from an index 0..99 (always written; use respell to
// drop X's).
func temporal3(v *spec.V3, idx int) {
	v.M[spec.RC] = int8(idx % 4)
	idx /= 4
	v.M[spec.RL] = int8(idx % 5)
	idx /= 5
	v.M[spec.E] = int8(idx % 5)
}

// nEnv3 is the number of environmental combinations.
const nEnv3 = 4 * 4 * 4 * 5 * 3 * 4 * 3 * 3 * 4 * 4 * 4 // 2,211,840

// env3 sets the eleven environmental metrics from an index.
func env3(v *spec.V3, idx int) {
	for m := spec.MA; m >= spec.CR; m-- {
		n := len(spec.V3Metrics[m].Codes)
		v.M[m] = int8(idx % n)
		idx /= n
	}
}

// randEnv3 draws random optional metrics up to level.
func randOptional3(v *spec.V3, level int, rng *rand.Rand) {
	for m := spec.E; m < spec.V3LevelEnd(level); m++ {
		v.M[m] = int8(rng.IntN(len(spec.V3Metrics[m].Codes)))
	}
}

// respell decides, for every optional metric that is X, whether it is
// spelled (0) or omitted (-1).
func respell(v *spec.V3, level int, rng *rand.Rand) {
	for m := spec.E; m < spec.V3LevelEnd(level); m++ {
		if v.M[m] <= 0 {
			if rng.IntN(2) == 0 {
				v.M[m] = -1
			} else {
				v.M[m] = 0
			}
		}
	}
}

// render3 renders v at level with tokens in the given order (nil = canonical).
func render3(v *spec.V3, level int, shuffle *rand.Rand) string {
	toks := v.Tokens(level)
	if shuffle != nil {
		shuffle.Shuffle(len(toks), func(i, j int) { toks[i], toks[j] = toks[j], toks[i] })
	}
	return "CVSS:" + spec.V3Versions[v.Ver] + "/" + strings.Join(toks, "/")
}

// permutations calls fn with every permutation of toks (Heap's algorithm).
func permutations(toks []string, fn func([]string)) {
	n := len(toks)
	c := make([]int, n)
	fn(toks)
	for i := 0; i < n; {
		if c[i] < i {
			if i%2 == 0 {
				toks[0], toks[i] = toks[i], toks[0]
			} else {
				toks[c[i]], toks[i] = toks[i], toks[c[i]]
			}
			fn(toks)
			c[i]++
			i = 0
		} else {
			c[i] = 0
			i++
		}
	}
}

// ---- v2 ---------------------------------------------------------------------

const nBase2 = 729
const nTemp2 = 100
const nEnv2 = 6 * 5 * 4 * 4 * 4 // 1920

func base2(v *spec.V2, idx int) {
	for m := spec.V2A; m >= spec.V2AV; m-- {
		v.M[m] = int8(idx % 3)
		idx /= 3
	}
}

func temporal2(v *spec.V2, idx int) {
	v.HasT = true
	v.M[spec.V2RC] = int8(idx % 4)
	idx /= 4
	v.M[spec.V2RL] = int8(idx % 5)
	idx /= 5
	v.M[spec.V2E] = int8(idx % 5)
}

func env2(v *spec.V2, idx int) {
	v.HasE = true
	v.M[spec.V2AR] = int8(idx % 4)
	idx /= 4
	v.M[spec.V2IR] = int8(idx % 4)
	idx /= 4
	v.M[spec.V2CR] = int8(idx % 4)
	idx /= 4
	v.M[spec.V2TD] = int8(idx % 5)
	idx /= 5
	v.M[spec.V2CDP] = int8(idx % 6)
}

// presencePatterns calls fn with one vector for every presence pattern of the optional metrics: bit i of the
// pattern says whether optional metric i (E, RL, RC, CR ... MA) is written, with a defined value; the base
// metrics and the version are seeded.  L is the level of the highest metric written.  (Drawing presence
// independently per metric gives any one of the 16,384 patterns with probability 6e-5.)
func presencePatterns(r *Run, reps int, fn func(w *W, v *spec.V3, L int, rng *rand.Rand)) {
	nOpt := spec.N3 - spec.E
	r.Parallel(1<<nOpt, 32, func(w *W, p int) {
		rng := r.Rng(uint64(p) + 1<<45)
		for rep := 0; rep < reps; rep++ {
			v := newV3(rng.IntN(2), rng.IntN(nBase3))
			L := spec.LBase
			for i := 0; i < nOpt; i++ {
				m := spec.E + i
				if p>>i&1 == 1 {
					v.M[m] = int8(1 + rng.IntN(len(spec.V3Metrics[m].Codes)-1))
					if m >= spec.CR {
						L = spec.LEnv
					} else if L < spec.LTemp {
						L = spec.LTemp
					}
				}
			}
			fn(w, &v, L, rng)
			w.Count("optional_metric_presence_patterns")
		}
	})
}
