package mon

import (
	"encoding/json"
	"fmt"
	"math"
	"os"

	"verif/harness/lib"
	"verif/harness/spec"
)

// kfgen is a one-off tool: it observes the library on every v2 base vector and
// every (base, CR, IR, AR) key and prints the keys whose (adjusted) base score
// is outside the admissible set, with the value the library returns.  Its
// output was reviewed and committed as known_findings.json; checks never run it.
func init() {
	internals["kfgen"] = func(args []string, seed int64, dir string) int {
		r2 := func(x float64) float64 { return math.Round(x*100) / 100 }
		kf1 := map[string]int{}
		kf2 := map[string]int{}
		unexplained := 0
		t := spec.Tables2()
		w := []float64{}
		_ = w
		val := func(m, ci int) float64 {
			var f float64
			fmt.Sscan(spec.V2Metrics[m].W[ci], &f)
			return f
		}
		model := func(v *spec.V2, adj bool) float64 {
			c, i, a := val(spec.V2C, int(v.M[spec.V2C])), val(spec.V2I, int(v.M[spec.V2I])), val(spec.V2A, int(v.M[spec.V2A]))
			if adj {
				c *= val(spec.V2CR, int(v.M[spec.V2CR]))
				i *= val(spec.V2IR, int(v.M[spec.V2IR]))
				a *= val(spec.V2AR, int(v.M[spec.V2AR]))
			}
			imp := r2(10.41 * (1 - (1-c)*(1-i)*(1-a)))
			if adj {
				imp = math.Min(10, imp)
			}
			ex := r2(20 * val(spec.V2AV, int(v.M[spec.V2AV])) * val(spec.V2AC, int(v.M[spec.V2AC])) * val(spec.V2Au, int(v.M[spec.V2Au])))
			f := 1.176
			if imp == 0 {
				f = 0
			}
			return math.Round(((0.6*imp)+(0.4*ex)-1.5)*f*10) / 10
		}
		for bi := 0; bi < nBase2; bi++ {
			var v spec.V2
			base2(&v, bi)
			o, err, _ := lib.Decode(lib.K2B, v.String(), false)
			if err != nil {
				fmt.Fprintln(os.Stderr, "decode failed", v.String(), err)
				return 3
			}
			f, _ := o.Score()
			k, _ := toTenth(f)
			if !t.Base[v.M[0]][v.M[1]][v.M[2]][v.M[3]][v.M[4]][v.M[5]].Has(k) {
				kf1[v.String()] = k
				if model(&v, false) != f {
					unexplained++
				}
			}
			for req := 0; req < 64; req++ {
				v.HasE = true
				v.M[spec.V2CR], v.M[spec.V2IR], v.M[spec.V2AR] = int8(req/16), int8(req%16/4), int8(req%4)
				v.M[spec.V2CDP], v.M[spec.V2TD] = 5, 4 // ND, ND
				o, err, _ := lib.Decode(lib.K2E, v.String(), false)
				if err != nil {
					fmt.Fprintln(os.Stderr, "decode failed", v.String(), err)
					return 3
				}
				f, _ := o.Score()
				k, _ := toTenth(f)
				if !t.Adj[v.M[0]][v.M[1]][v.M[2]][v.M[3]][v.M[4]][v.M[5]][v.M[spec.V2CR]][v.M[spec.V2IR]][v.M[spec.V2AR]].Has(k) {
					kf2[adjKey(&v)] = k
					if model(&v, true) != f {
						unexplained++
					}
				}
				v.HasE = false
			}
		}
		out := map[string]interface{}{"KF-1": kf1, "KF-2": kf2, "deviations_not_reproduced_by_the_two_decimal_model": unexplained}
		b, _ := json.MarshalIndent(out, "", " ")
		fmt.Println(string(b))
		fmt.Fprintln(os.Stderr, "KF-1 keys:", len(kf1), "KF-2 keys:", len(kf2), "unexplained:", unexplained)
		return 0
	}
}
