package mon

import (
	"fmt"
	"math"
	"strconv"
	"sync"
	"sync/atomic"

	"verif/harness/lib"
	"verif/harness/spec"
)

func init() {
	register(&Monitor{ID: "C20", Title: "value codes, enumeration values and weights form the specification's tables", Run: runC20, Replay: replayC20})
}

const alnum = "ABCDEFGHIJKLMNOPQRSTUVWXYZabcdefghijklmnopqrstuvwxyz0123456789"

type metricDesc struct {
	ops   *lib.MetricOps
	codes []string
	w     []string
	wc    []string
	cst   []int
	unk   int
	idx   int
}

func allMetricDescs() []metricDesc {
	var out []metricDesc
	for i := range spec.V3Metrics {
		m := &spec.V3Metrics[i]
		out = append(out, metricDesc{ops: &lib.Ops3[i], codes: m.Codes, w: m.W, wc: m.WC, cst: lib.C3[i], unk: lib.U3[i], idx: i})
	}
	for i := range spec.V2Metrics {
		m := &spec.V2Metrics[i]
		out = append(out, metricDesc{ops: &lib.Ops2[i], codes: m.Codes, w: m.W, cst: lib.C2[i], unk: lib.U2[i], idx: i})
	}
	return out
}

func pf(s string) float64 { f, _ := strconv.ParseFloat(s, 64); return f }

func codeCase(md *metricDesc, code string) Case {
	v := "v3"
	if md.ops.V2 {
		v = "v2"
	}
	c := Case{Type: "code", Kind: v + "." + md.ops.Type}
	c.SetInput(code)
	return c
}

// guard runs f and converts a panic into a violation.
func guard(w *W, c Case, what string, f func()) {
	defer func() {
		if r := recover(); r != nil {
			w.Violate(Violation{Monitor: "C20", Check: what + " does not panic", Case: c, Observed: fmt.Sprint(r)})
		}
	}()
	f()
}

// checkMetricCodes checks Get/String/validity of one metric over one candidate string.
func checkCandidate(w *W, md *metricDesc, s string) {
	w.Eval(1)
	want := md.unk
	for ci, c := range md.codes {
		if c == s {
			want = md.cst[ci]
		}
	}
	guard(w, codeCase(md, s), "Get", func() {
		if got := md.ops.Get(s); got != want {
			w.Violate(Violation{Monitor: "C20", Check: "parsing a valid code gives its constant, any other string the unknown/invalid value", Case: codeCase(md, s), Observed: got, Expected: want})
		}
	})
}

func checkMetricTables(w *W, md *metricDesc, repeats int) {
	ops := md.ops
	maxEnum := 0
	for _, c := range md.cst {
		if c > maxEnum {
			maxEnum = c
		}
	}
	// code <-> constant, repeated (map-iteration nondeterminism)
	for ci, code := range md.codes {
		c := codeCase(md, code)
		for k := 0; k < repeats; k++ {
			w.Eval(1)
			guard(w, c, "Get/String", func() {
				if got := ops.Get(code); got != md.cst[ci] {
					w.Violate(Violation{Monitor: "C20", Check: "parsing a valid code gives the constant of that value", Case: c, Observed: got, Expected: md.cst[ci]})
				}
				if got := ops.Str(md.cst[ci]); got != code {
					w.Violate(Violation{Monitor: "C20", Check: "printing a value gives its code back", Case: c, Observed: got, Expected: code})
				}
			})
		}
		w.DistinctS("codes", c.Kind+"/"+code)
	}
	// unknown/invalid value: prints empty, separated by the validity predicate
	cu := codeCase(md, "<unknown constant>")
	guard(w, cu, "String/validity", func() {
		if s := ops.Str(md.unk); s != "" {
			w.Violate(Violation{Monitor: "C20", Check: "the unknown/invalid value prints as empty text", Case: cu, Observed: s, Expected: ""})
		}
		pu := ops.Valid(md.unk)
		for ci, cst := range md.cst {
			if ops.Valid(cst) == pu {
				w.Violate(Violation{Monitor: "C20", Check: "the validity predicate " + ops.ValidName + " distinguishes the unknown/invalid value from every defined value", Case: codeCase(md, md.codes[ci]), Observed: pu})
			}
		}
		if ops.Defined != nil && ops.Defined(md.unk) {
			w.Violate(Violation{Monitor: "C20", Check: "IsDefined is false for the invalid value", Case: cu, Observed: true})
		}
	})
	// integers outside the enumeration print empty
	defined := map[int]bool{}
	for _, c := range md.cst {
		defined[c] = true
	}
	ints := []int{math.MinInt, math.MinInt32, math.MaxInt32, math.MaxInt, 1 << 32, 1<<32 + 1, 1<<32 + 2, 1<<32 + 3, 1 << 31, 1<<31 + 1}
	for v := -1100; v <= 1100; v++ {
		ints = append(ints, v)
	}
	for _, b := range []int{1 << 15, 1 << 16, -(1 << 16), 1 << 24, 65536 * 3} {
		for d := -8; d <= 8; d++ {
			ints = append(ints, b+d)
		}
	}
	ints = append(ints, wrapInts...)
	for _, v := range ints {
		if defined[v] {
			continue
		}
		w.Eval(1)
		c := codeCase(md, fmt.Sprintf("<int %d>", v))
		guard(w, c, "String", func() {
			if s := ops.Str(v); s != "" {
				w.Violate(Violation{Monitor: "C20", Check: "an integer outside the enumeration prints as empty text", Case: c, Observed: s, Expected: ""})
			}
			if ops.HasValue {
				ops.Value(v, 0, 0, 0) // must not panic
			}
			ops.Valid(v)
		})
	}
	// weights
	if !ops.HasValue {
		return
	}
	cmp := func(c Case, got float64, want string) {
		w.Eval(1)
		if got != got { // NaN: the Value method no longer has the known signature (see lib.APIChanged)
			w.Count("value_method_signature_changed")
			return
		}
		if got != pf(want) {
			w.Violate(Violation{Monitor: "C20", Check: "the weight equals the specification's table (identical float64)", Case: c, Observed: got, Expected: pf(want)})
		}
	}
	switch ops.Kind {
	case "plain":
		for ci, code := range md.codes {
			c := codeCase(md, code)
			guard(w, c, "Value", func() { cmp(c, ops.Value(md.cst[ci], 0, 0, 0), md.w[ci]) })
		}
	case "pr":
		for ci, code := range md.codes {
			for s := 0; s < 2; s++ {
				c := codeCase(md, code)
				c.Args = map[string]string{"scope": spec.V3Metrics[spec.S].Codes[s]}
				want := md.w[ci]
				if s == 1 {
					want = md.wc[ci]
				}
				guard(w, c, "Value", func() { cmp(c, ops.Value(md.cst[ci], lib.C3[spec.S][s], 0, 0), want) })
			}
		}
	case "mod":
		b := spec.ModOf[md.idx]
		bm := &spec.V3Metrics[b]
		for ci, code := range md.codes {
			for bi, bcode := range bm.Codes {
				c := codeCase(md, code)
				c.Args = map[string]string{"base": bcode}
				want := bm.W[bi]
				if ci > 0 {
					want = bm.W[ci-1]
				}
				guard(w, c, "Value", func() { cmp(c, ops.Value(md.cst[ci], lib.C3[b][bi], 0, 0), want) })
			}
		}
	case "mpr":
		pr := &spec.V3Metrics[spec.PR]
		for ci, code := range md.codes {
			for ms := 0; ms < 3; ms++ {
				for s := 0; s < 2; s++ {
					for pi, pcode := range pr.Codes {
						c := codeCase(md, code)
						c.Args = map[string]string{"MS": spec.V3Metrics[spec.MS].Codes[ms], "S": spec.V3Metrics[spec.S].Codes[s], "PR": pcode}
						changed := s == 1
						if ms > 0 {
							changed = ms == 2
						}
						eff := pi
						if ci > 0 {
							eff = ci - 1
						}
						want := pr.W[eff]
						if changed {
							want = pr.WC[eff]
						}
						guard(w, c, "Value", func() {
							cmp(c, ops.Value(md.cst[ci], lib.C3[spec.MS][ms], lib.C3[spec.S][s], lib.C3[spec.PR][pi]), want)
						})
					}
				}
			}
		}
	}
}

func runC20(r *Run) int {
	r.CleanOut()
	descs := allMetricDescs()
	repeats := r.Pick(64, 512)
	// candidate strings: all strings of length <= 3 over [A-Za-z0-9] + specials
	var cands []string
	cands = append(cands, "")
	for i := 0; i < len(alnum); i++ {
		cands = append(cands, alnum[i:i+1])
		for j := 0; j < len(alnum); j++ {
			cands = append(cands, alnum[i:i+1]+alnum[j:j+1])
		}
	}
	for i := 0; i < len(alnum); i++ {
		for j := 0; j < len(alnum); j++ {
			for k := 0; k < len(alnum); k++ {
				cands = append(cands, alnum[i:i+1]+alnum[j:j+1]+alnum[k:k+1])
			}
		}
	}
	if r.Thorough() {
		// all upper-case strings of length 4
		for i := 0; i < 26*26*26*26; i++ {
			cands = append(cands, string([]byte{alnum[i/17576%26], alnum[i/676%26], alnum[i/26%26], alnum[i%26]}))
		}
	}
	for _, c := range allCodes {
		cands = append(cands, " "+c, c+" ", c+"\n", c+"\x00", "\t"+c, c+c, c+":"+c, "/"+c, c+"/", "é"+c)
	}
	for _, c := range allCodes {
		for _, b := range []string{"\x00", "\x00\x00", "\x01", "\x7f", "\x80", "\xff", "+", "-", "0"} {
			cands = append(cands, b+c, c+b, b+c+b)
		}
	}
	// runs of two or three codes of one metric joined by a separator, bare and enclosed in it (a lookup by
	// substring search in a packed list of codes)
	for _, md := range descs {
		for i := range md.codes {
			for j := range md.codes {
				for _, sep := range []string{",", ";", "|", " ", "/", ":", "\x00"} {
					cands = append(cands, md.codes[i]+sep+md.codes[j], sep+md.codes[i]+sep, sep+md.codes[i], md.codes[i]+sep)
					if k := (i + j + 1) % len(md.codes); sep == "," || sep == "|" {
						cands = append(cands, md.codes[i]+sep+md.codes[j]+sep+md.codes[k])
					}
				}
			}
		}
	}
	cands = append(cands, "None", "High", "Low", "Network", "NOTDEFINED", "Not Defined", "x", "nd", "Nd", "poc", "\xff", string(make([]byte, 4096)))
	var wsum atomic.Int64
	// two passes: the second one runs after every metric of both versions has been looked up (a lookup
	// structure filled on first use could change what other metrics parse)
	for pass := 0; pass < 2; pass++ {
		r.Parallel(len(descs), 1, func(w *W, i int) {
			md := &descs[(i*7+pass*5)%len(descs)]
			checkMetricTables(w, md, repeats)
			for _, s := range cands {
				checkCandidate(w, md, s)
			}
			if pass == 0 {
				wsum.Add(1)
				w.Sample(map[string]interface{}{"metric": codeCase(md, "").Kind, "codes": md.codes, "weights": md.w})
			}
		})
	}
	// concurrent lookups: 8 goroutines go through all metrics, codes, near-miss strings and version labels at once
	near := []string{"VN", "VP", "VL", "VA", "CH", "CL", "N", "X", "ND", "", "H", "L", "POC"}
	var wgc sync.WaitGroup
	for g := 0; g < 8; g++ {
		wgc.Add(1)
		go func(g int) {
			defer wgc.Done()
			w := r.NewW()
			defer w.Merge()
			for round := 0; round < r.Pick(30, 300); round++ {
				for i := range descs {
					md := &descs[(i+g*5)%len(descs)]
					for _, code := range md.codes {
						checkCandidate(w, md, code)
					}
					for _, s := range near {
						checkCandidate(w, md, s)
					}
				}
				checkVersions(w, near, 1)
			}
			w.Count("concurrent_lookup_goroutines")
		}(g)
	}
	wgc.Wait()
	// scope predicates
	w := r.NewW()
	for s := 0; s < 2; s++ {
		w.Eval(1)
		if lib.ScopeIsChanged(lib.C3[spec.S][s]) != (s == 1) {
			w.Violate(Violation{Monitor: "C20", Check: "Scope.IsChanged", Case: Case{Type: "code", Kind: "v3.Scope", Input: spec.V3Metrics[spec.S].Codes[s]}, Observed: !(s == 1)})
		}
		for ms := 0; ms < 3; ms++ {
			w.Eval(1)
			want := s == 1
			if ms > 0 {
				want = ms == 2
			}
			if lib.ModifiedScopeIsChanged(lib.C3[spec.MS][ms], lib.C3[spec.S][s]) != want {
				w.Violate(Violation{Monitor: "C20", Check: "ModifiedScope.IsChanged falls back to the base scope when Not Defined", Case: Case{Type: "code", Kind: "v3.ModifiedScope", Input: spec.V3Metrics[spec.MS].Codes[ms], Args: map[string]string{"S": spec.V3Metrics[spec.S].Codes[s]}}, Observed: !want, Expected: want})
			}
		}
	}
	// version labels
	checkVersions(w, cands, repeats)
	w.Merge()
	if ch := lib.APIChanged(); len(ch) > 0 {
		r.Inconclusive("the dependent-weight Value method of %v no longer has the signature the harness knows; those weights were not checked", ch)
	}
	r.Extra("metrics_checked", wsum.Load())
	r.Extra("candidate_strings_per_metric", len(cands))
	r.Extra("lookup_repeats_per_code", repeats)
	lens := "all strings of length <= 3 over [A-Za-z0-9]"
	if r.Thorough() {
		lens += " and all upper-case strings of length 4"
	}
	return r.Finish("exhaustive per metric (22 v3 + 14 v2) against the specification tables: Get(code) gives the constant (by exported name) and String() the code back, each lookup repeated (map-iteration nondeterminism); every other candidate string ("+lens+", codes of other metrics padded/doubled, empty, long, non-UTF-8) parses to the unknown/invalid constant; that constant prints empty and the metric's validity predicate separates it from every defined value (either polarity); integers outside the enumeration (-1100..1100, around +-2^15/2^16/2^24/2^31/2^32, MinInt/MaxInt) print empty; all of this in two passes (the second after every metric has been looked up) and once more from 8 goroutines at once; Value() equals the specification weight as the identical float64 incl. PR x scope, Modified* x base value, MPR x MS x S x PR; scope predicates; version label parser/printer of v3/metric and v3/version; distinct non-trivial = distinct (metric, code) pairs",
		true, int64(r.SetSize("codes")), 100000, 100, TrustedBase)
}

func checkVersions(w *W, cands []string, repeats int) {
	for vi, label := range spec.V3Versions {
		c := Case{Type: "code", Kind: "v3.Version", Input: label}
		for k := 0; k < repeats; k++ {
			w.Eval(1)
			guard(w, c, "version API", func() {
				if v, err := lib.GetVersion3("CVSS:" + label); err != nil || v != lib.Ver3[vi] {
					w.Violate(Violation{Monitor: "C20", Check: "GetVersion parses the label of a supported version", Case: c, Observed: fmt.Sprint(v, err), Expected: lib.Ver3[vi]})
				}
				if s := lib.VersionString3(lib.Ver3[vi]); s != label {
					w.Violate(Violation{Monitor: "C20", Check: "Version.String prints the label back", Case: c, Observed: s, Expected: label})
				}
				if v := lib.LegacyGet(label); v != lib.LegacyConst[vi] {
					w.Violate(Violation{Monitor: "C20", Check: "version.Get parses the label of a supported version", Case: c, Observed: v, Expected: lib.LegacyConst[vi]})
				}
				if s := lib.LegacyString(lib.LegacyConst[vi]); s != label {
					w.Violate(Violation{Monitor: "C20", Check: "version.Num.String prints the label back", Case: c, Observed: s, Expected: label})
				}
			})
		}
		w.DistinctS("codes", "version/"+label)
	}
	others := append([]string{"+3.0", "+3.1", "003.1", "3.+1", "3.01", "３.１", "3.1\x00", "\x003.1", "3", "3.", "3.2", "3.00", "3.10", "03.1", "2.0", "4.0", "1.0", "3.1 ", " 3.1", "3,1", "v3.1", "unknown", "3.1.0", "٣.١"}, append(append([]string(nil), numericVersionLabels...), cands...)...)
	for _, o := range others {
		if o == "3.0" || o == "3.1" {
			continue
		}
		w.Eval(1)
		c := Case{Type: "code", Kind: "v3.Version"}
		c.SetInput(o)
		guard(w, c, "version API", func() {
			if v := lib.LegacyGet(o); v != lib.LegacyUnknown {
				w.Violate(Violation{Monitor: "C20", Check: "version.Get maps any other label to unknown", Case: c, Observed: v, Expected: lib.LegacyUnknown})
			}
			v, err := lib.GetVersion3("CVSS:" + o)
			if err == nil && v != lib.VerUnknown3 {
				w.Violate(Violation{Monitor: "C20", Check: "GetVersion maps any other label to unknown", Case: c, Observed: v, Expected: lib.VerUnknown3})
			}
			if err != nil && v != lib.VerUnknown3 {
				w.Violate(Violation{Monitor: "C20", Check: "GetVersion returns unknown together with an error", Case: c, Observed: v, Expected: lib.VerUnknown3})
			}
		})
	}
	// complete labels of the supported versions with something in front of, behind or inside "CVSS:"
	for _, label := range spec.V3Versions {
		full := "CVSS:" + label
		for _, o := range []string{"\ufeff" + full, "\xff\xfe" + full, "\xfe\xff" + full, " " + full, "\t" + full, "\n" + full, "\x00" + full, full + "\ufeff", full + " ", full + "\x00", full + "\n", full + "/",
			"cvss:" + label, "Cvss:" + label, "CVSS：" + label, "CVSS: " + label, "CVSS :" + label, "CVSS::" + label, "CVSS=" + label, "CVSS" + label, "CVSSv" + label, "CVSS:v" + label, "\u200bCVSS:" + label, "CVSS:\u200b" + label, "CVSS:\ufeff" + label, "(" + full + ")", "\"" + full + "\""} {
			w.Eval(1)
			c := Case{Type: "code", Kind: "v3.VersionLabel"}
			c.SetInput(o)
			guard(w, c, "version API", func() {
				if v, err := lib.GetVersion3(o); v != lib.VerUnknown3 {
					w.Violate(Violation{Monitor: "C20", Check: "GetVersion maps any other label to unknown", Case: c, Observed: fmt.Sprint(v, " ", err), Expected: lib.VerUnknown3})
				}
			})
		}
	}
	for n := -2; n <= 6; n++ {
		if n == lib.Ver3[0] || n == lib.Ver3[1] {
			continue
		}
		w.Eval(1)
		if s := lib.VersionString3(n); s != "unknown" {
			w.Violate(Violation{Monitor: "C20", Check: "Version.String of a value outside {3.0, 3.1} is \"unknown\"", Case: Case{Type: "code", Kind: "v3.Version", Input: fmt.Sprint("<int ", n, ">")}, Observed: s, Expected: "unknown"})
		}
		if s := lib.LegacyString(n); s != "unknown" {
			w.Violate(Violation{Monitor: "C20", Check: "version.Num.String of a value outside {3.0, 3.1} is \"unknown\"", Case: Case{Type: "code", Kind: "v3.Version", Input: fmt.Sprint("<int ", n, ">")}, Observed: s, Expected: "unknown"})
		}
	}
}

func replayC20(r *Run, c Case) {
	w := r.NewW()
	defer w.Merge()
	descs := allMetricDescs()
	for i := range descs {
		md := &descs[i]
		if codeCase(md, "").Kind == c.Kind {
			checkMetricTables(w, md, 64)
			checkCandidate(w, md, c.GetInput())
			fmt.Printf("replay %s code %q: Get=%d String(of that)=%q\n", c.Kind, c.GetInput(), md.ops.Get(c.GetInput()), md.ops.Str(md.ops.Get(c.GetInput())))
		}
	}
	if c.Kind == "v3.Version" || c.Kind == "v3.VersionLabel" || c.Kind == "v3.Scope" || c.Kind == "v3.ModifiedScope" {
		checkVersions(w, []string{c.GetInput()}, 64)
	}
}
