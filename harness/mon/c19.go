package mon

import (
	"bufio"
	"bytes"
	"errors"
	"fmt"
	"io"
	"math/rand/v2"
	"os"
	"path/filepath"
	"strings"
	"sync/atomic"
	"testing/iotest"
	"text/template"

	"github.com/goark/go-cvss/cvsserr"

	"verif/harness/lib"
	"verif/harness/spec"
)

func init() {
	register(&Monitor{ID: "C19", Title: "template export renders user templates faithfully and fails cleanly", Run: runC19, Replay: replayC19})
}

// field references available at each report level (own, promoted and through embedded reports)
func reportFieldRefs(level int) []string {
	var refs []string
	for sub := 0; sub <= level; sub++ {
		for _, fw := range reportWiring[sub] {
			refs = append(refs, "."+fw.name)
			if p := levelPrefix(level, sub); p != "" {
				refs = append(refs, "."+p+fw.name)
				if sub == 0 && level == 2 {
					refs = append(refs, ".BaseReport."+fw.name) // promoted path
				}
			}
		}
	}
	return refs
}

var literalPieces = []string{"e\u0301", "か\u3099", "\u2126", "\u037e", "\u212b", "\u0301", "<a href=\"", "\">", "<script>", "</script>", "<p class=", ">", "", " ", "\n", "CVSS report: ", "| ", " |\n", "攻撃元区分: ", "é ü ß", "<b>", "</b>", "&amp;", "\"q\"", "'", "{", "}", "{ {", "}}", "%s %d", "\t", "\x00", "\\", "$x", "end", "{{`{{`}}"}

type tmplGen struct {
	rng  *rand.Rand
	refs []string
	defs []string
}

func (g *tmplGen) ref() string { return g.refs[g.rng.IntN(len(g.refs))] }

func (g *tmplGen) lit() string {
	p := literalPieces[g.rng.IntN(len(literalPieces))]
	if strings.HasSuffix(p, "{") {
		p += " " // a literal brace directly before an action would merge into "{{{"
	}
	return p
}

func (g *tmplGen) strExpr(depth int) string {
	switch g.rng.IntN(9) {
	case 0:
		return fmt.Sprintf("%q", g.lit())
	case 1:
		if depth > 0 {
			return "(printf \"%s-%v\" " + g.strExpr(depth-1) + " " + g.strExpr(depth-1) + ")"
		}
	case 2:
		if depth > 0 {
			return "(print " + g.strExpr(depth-1) + " " + g.strExpr(depth-1) + ")"
		}
	case 3:
		if depth > 0 {
			return "(html " + g.strExpr(depth-1) + ")"
		}
	case 4:
		if depth > 0 {
			return "(" + []string{"js", "urlquery", "println"}[g.rng.IntN(3)] + " " + g.strExpr(depth-1) + ")"
		}
	}
	return g.ref()
}

func (g *tmplGen) boolExpr(depth int) string {
	switch g.rng.IntN(7) {
	case 0:
		return "(eq " + g.strExpr(1) + " " + g.strExpr(1) + ")"
	case 1:
		return "(ne " + g.strExpr(1) + " " + fmt.Sprintf("%q", []string{"High", "None", "Low", "重要", ""}[g.rng.IntN(5)]) + ")"
	case 2:
		return "(lt " + g.strExpr(1) + " " + g.strExpr(1) + ")"
	case 3:
		if depth > 0 {
			return "(and " + g.boolExpr(depth-1) + " " + g.boolExpr(depth-1) + ")"
		}
	case 4:
		if depth > 0 {
			return "(or " + g.boolExpr(depth-1) + " (not " + g.boolExpr(depth-1) + "))"
		}
	case 5:
		return "(gt (len " + g.ref() + ") " + fmt.Sprint(g.rng.IntN(12)) + ")"
	}
	return g.ref()
}

// valid generates a template that parses; most also execute.
func (g *tmplGen) valid(depth int) string {
	var sb strings.Builder
	if depth == 2 && g.rng.IntN(12) == 0 { // a template that looks like an HTML document
		sb.WriteString([]string{"<!DOCTYPE html>\n<html><body>", "<html>", "  <!doctype html><html lang=ja>", "\ufeff<HTML>"}[g.rng.IntN(4)])
		sb.WriteString("<a href=\"{{" + g.ref() + "}}\">" + "<p title={{" + g.ref() + "}}>" + "<script>var s = {{" + g.ref() + "}};</script>")
	}
	n := 1 + g.rng.IntN(6)
	for i := 0; i < n; i++ {
		sb.WriteString(g.lit())
		switch g.rng.IntN(16) {
		case 0, 1, 2:
			sb.WriteString("{{" + g.ref() + "}}")
		case 3:
			sb.WriteString("{{" + g.strExpr(2) + "}}")
		case 4:
			sb.WriteString("{{" + g.ref() + " | printf \"%q\"}}")
		case 5:
			sb.WriteString("{{len " + g.ref() + "}}")
		case 6:
			if depth > 0 {
				sb.WriteString("{{if " + g.boolExpr(2) + "}}" + g.valid(depth-1) + "{{else}}" + g.valid(depth-1) + "{{end}}")
			}
		case 7:
			if depth > 0 {
				sb.WriteString("{{with " + g.strExpr(1) + "}}{{.}}" + g.lit() + "{{else}}empty{{end}}")
			}
		case 8:
			sb.WriteString("{{$x := " + g.strExpr(1) + "}}{{$x}}{{$x = " + g.ref() + "}}{{$x}}")
		case 9:
			sb.WriteString("{{/* a comment */}}{{- " + g.ref() + " -}}")
		case 10:
			name := []string{"T", "hdr", "row", "cell"}[g.rng.IntN(4)] + fmt.Sprint(len(g.defs))
			if g.rng.IntN(5) > 0 { // sometimes only reference the name: it must then be undefined, whatever earlier templates defined
				g.defs = append(g.defs, "{{define \""+name+"\"}}["+g.lit()+"{{.}}"+fmt.Sprint(g.rng.IntN(1000))+"]{{end}}")
			}
			sb.WriteString("{{template \"" + name + "\" " + g.strExpr(1) + "}}")
		case 11:
			name := "blk" + fmt.Sprint(g.rng.IntN(1000))
			sb.WriteString("{{block \"" + name + "\" " + g.ref() + "}}<{{.}}>{{end}}")
		case 12:
			sb.WriteString("{{slice " + g.ref() + " 0 " + fmt.Sprint(g.rng.IntN(3)) + "}}")
		case 13:
			sb.WriteString("{{index " + g.ref() + " 0}}")
		case 14:
			sb.WriteString("{{range $i, $c := " + g.ref() + "}}{{$i}}{{end}}")
		case 15:
			sb.WriteString("{{printf \"%-12s|%5.1s|\" " + g.ref() + " " + g.ref() + "}}")
		}
		switch g.rng.IntN(40) {
		case 0: // a field that does not exist, in an argument position text/template never evaluates
			sb.WriteString("{{or " + g.ref() + " .NoSuchField}}{{and \"\" .AlsoMissing}}")
		case 1: // ... or in a branch that is never taken
			sb.WriteString("{{if false}}{{.NoSuchField}}{{end}}{{if " + g.ref() + "}}x{{else}}{{.NoSuchField.Deeper}}{{end}}")
		case 2:
			sb.WriteString("{{with $u := \"\"}}{{.Missing}}{{else}}ok{{end}}")
		case 3: // the report itself handed to a printing function: its dynamic type and pointer-ness show
			sb.WriteString([]string{"{{printf \"%T\" .}}", "{{printf \"%T|%T\" $ .Vector}}", "{{len (printf \"%v\" .)}}", "{{len (print $)}}", "{{printf \"%.3v\" .}}", "{{printf \"%.1s\" (printf \"%v\" .)}}"}[g.rng.IntN(6)])
		case 4: // the report's own methods called from the template (they have pointer receivers)
			sb.WriteString([]string{"{{.ExportWithString \"[{{.Vector}}]\"}}", "{{.ExportWithString " + g.ref() + "}}", "{{$.ExportWithString \"{{.Version}}{{/* nested */}}\"}}", "{{with .ExportWithString \"x\"}}{{printf \"%T\" .}}{{end}}"}[g.rng.IntN(4)])
		}
	}
	sb.WriteString(g.lit())
	for _, d := range g.defs {
		sb.WriteString(d)
	}
	g.defs = nil
	return sb.String()
}

// invalid generates a template that fails to parse or to execute (often after
// producing some output).
func (g *tmplGen) invalid() string {
	pre := g.valid(1)
	switch g.rng.IntN(22) {
	case 0:
		return pre + "{{if " + g.ref() + "}}unterminated"
	case 1:
		return pre + "{{end}}"
	case 2:
		return pre + "{{.NoSuchField}}" + g.valid(0)
	case 3:
		return pre + "{{nosuchfunc " + g.ref() + "}}"
	case 4:
		return pre + "{{len 3}}"
	case 5:
		return pre + "{{index " + g.ref() + " 99999}}" + g.valid(0)
	case 6:
		return pre + "{{template \"missing\" .}}"
	case 7:
		return pre + "{{\"unterminated string}}"
	case 8:
		return pre + "{{/* unterminated comment"
	case 9:
		return pre + "{{" + g.ref()
	case 10:
		if g.rng.IntN(4) > 0 { // the runaway recursion costs ~0.2 s per export: one in four of these cases
			return pre + "{{template \"nowhere\" .}}"
		}
		return "{{define \"r\"}}x{{template \"r\" .}}{{end}}" + pre + "{{template \"r\" .}}"
	case 11:
		return pre + "{{.Vector.Nope}}"
	case 12:
		return pre + "{{slice " + g.ref() + " 5 2}}"
	case 13:
		return pre + "{{" + g.ref() + " " + g.ref() + "}}" // a field is not a function
	case 14:
		return pre + "{{with}}x{{end}}"
	case 15:
		return pre + "{{else}}"
	case 16:
		return pre + "{{range .BaseScore}}{{.}}{{end}}{{range 1.5}}{{end}}"
	case 17:
		return pre + "{{$undefined}}"
	case 18:
		return pre + "{{printf \"%d\" | nosuch}}"
	case 19:
		return pre + "{{call " + g.ref() + "}}"
	case 20:
		return pre + "{{define \"a\"}}1{{end}}{{define \"a\"}}2{{end}}{{template \"a\"}}{{template \"b\"}}"
	default:
		return pre + "{{.BaseReport.BaseReport}}{{ . | " + g.ref() + " }}"
	}
}

// oracle runs Go's text/template on the same text and data.
func oracleTemplate(data interface{}, text string) (out string, err error) {
	defer func() {
		if r := recover(); r != nil {
			err = fmt.Errorf("text/template panicked: %v", r)
		}
	}()
	t, err := template.New("oracle").Parse(text)
	if err != nil {
		return "", err
	}
	var buf bytes.Buffer
	if err := t.Execute(&buf, data); err != nil {
		return "", err
	}
	return buf.String(), nil
}

func tmplCase(rep lib.Report, vec, lang, text string) Case {
	c := Case{Type: "template", Kind: lib.Kind3(rep.Level).String(), Args: map[string]string{"vector": vec, "lang": lang}}
	c.SetInput(text)
	return c
}

type c19stats struct {
	ok, parseFail, execFail, partialBeforeFail, held, reexported atomic.Int64
}

// heldReader is a reader returned by an earlier successful export that has not been drained yet.
type heldReader struct {
	rd   io.Reader
	want string
	c    Case
}

// checkHeld drains a held reader after later exports have run: its content must still be the text of its own export.
func checkHeld(w *W, st *c19stats, h *heldReader) {
	if h == nil || h.rd == nil {
		return
	}
	w.Eval(1)
	st.held.Add(1)
	got, _ := lib.Drain(h.rd)
	if got != h.want {
		h.c.Args["held_reader"] = "drained after later exports"
		w.Violate(Violation{Monitor: "C19", Check: "the reader returned by an export keeps yielding that export's text, whatever is exported afterwards", Case: h.c, Observed: clip(got, 300), Expected: clip(h.want, 300)})
	}
}

// checkExport compares ExportWithString with the oracle.
func checkExport(w *W, st *c19stats, rep lib.Report, vec, lang, text string) {
	w.Eval(1)
	want, werr := oracleTemplate(rep.Ptr(), text)
	got, gotNil, gerr, pan := rep.ExportWithString(text)
	c := tmplCase(rep, vec, lang, text)
	if pan != nil {
		w.Violate(Violation{Monitor: "C19", Check: "export does not panic", Case: c, Observed: pan.Value, Note: clip(pan.Stack, 1200)})
		return
	}
	if (werr == nil) != (gerr == nil) {
		w.Violate(Violation{Monitor: "C19", Check: "export succeeds exactly when text/template succeeds on the same template and report", Case: c, Observed: fmt.Sprint("export error: ", lib.ErrText(gerr)), Expected: fmt.Sprint("text/template error: ", werr)})
		return
	}
	if werr == nil {
		st.ok.Add(1)
		if gotNil {
			w.Violate(Violation{Monitor: "C19", Check: "a successful export returns a reader", Case: c, Observed: "nil reader"})
			return
		}
		if got != want {
			w.Violate(Violation{Monitor: "C19", Check: "export produces exactly the text that text/template yields", Case: c, Observed: clip(got, 400), Expected: clip(want, 400)})
		}
		return
	}
	if _, perr := template.New("p").Parse(text); perr != nil {
		st.parseFail.Add(1)
	} else {
		st.execFail.Add(1)
	}
	if !errors.Is(gerr, cvsserr.ErrInvalidTemplate) {
		w.Violate(Violation{Monitor: "C19", Check: "a template that does not parse or execute yields the invalid-template sentinel", Case: c, Observed: lib.ErrClass(gerr), Expected: "ErrInvalidTemplate"})
	}
	if !gotNil {
		w.Violate(Violation{Monitor: "C19", Check: "a failed export returns no output (no partial output)", Case: c, Observed: clip(got, 200)})
	}
}

// failing readers -----------------------------------------------------------

type failAfter struct {
	data []byte
	n    int
	err  error // the fault (nil: a plain error value)
	with bool  // the fault is returned together with the last bytes (n > 0, err) instead of after them
}

// eofLike is an error that claims to be io.EOF under errors.Is without being it.
type eofLike struct{}

func (eofLike) Error() string        { return "stream ended early" }
func (eofLike) Is(target error) bool { return target == io.EOF }

// timeoutErr looks like a temporary network error.
type timeoutErr struct{}

func (timeoutErr) Error() string   { return "i/o timeout" }
func (timeoutErr) Timeout() bool   { return true }
func (timeoutErr) Temporary() bool { return true }

// readFaults are the error values a failing reader reports: each of them is a failure (none is io.EOF itself).
var readFaults = []error{errors.New("injected read fault"), fmt.Errorf("truncated stream: %w", io.EOF), io.ErrUnexpectedEOF, fmt.Errorf("body: %w", io.ErrUnexpectedEOF),
	io.ErrClosedPipe, io.ErrNoProgress, os.ErrClosed, os.ErrDeadlineExceeded, eofLike{}, timeoutErr{}, errors.Join(io.EOF, errors.New("checksum mismatch")), &os.PathError{Op: "read", Path: "template", Err: io.EOF}}

func (f *failAfter) Read(p []byte) (int, error) {
	fault := f.err
	if fault == nil {
		fault = readFaults[0]
	}
	if f.n <= 0 {
		return 0, fault
	}
	k := min(len(p), f.n, len(f.data))
	if k == 0 {
		return 0, fault
	}
	copy(p, f.data[:k])
	f.data = f.data[k:]
	f.n -= k
	if f.with && f.n == 0 {
		return k, fault
	}
	return k, nil
}

type chunkReader struct {
	data    []byte
	rng     *rand.Rand
	stutter int
}

func (c *chunkReader) Read(p []byte) (int, error) {
	if len(c.data) == 0 {
		return 0, io.EOF
	}
	if c.stutter > 0 && c.rng.IntN(3) == 0 {
		c.stutter--
		return 0, nil
	}
	k := 1 + c.rng.IntN(min(len(p), 97))
	if k > len(c.data) {
		k = len(c.data)
	}
	copy(p, c.data[:k])
	c.data = c.data[k:]
	if len(c.data) == 0 && c.rng.IntN(2) == 0 {
		return k, io.EOF // (n>0, io.EOF)
	}
	return k, nil
}

// namedReader is a reader together with the content it will deliver.
type namedReader struct {
	name    string
	rd      io.Reader
	content string
	cleanup func()
}

// readersFor builds readers of many shapes over text (and over suffixes of it, for readers already positioned).
func readersFor(text string, rng *rand.Rand) []namedReader {
	out := []namedReader{
		{name: "strings.Reader", rd: strings.NewReader(text), content: text},
		{name: "bytes.Buffer", rd: bytes.NewBufferString(text), content: text},
		{name: "OneByteReader", rd: iotest.OneByteReader(strings.NewReader(text)), content: text},
		{name: "HalfReader", rd: iotest.HalfReader(strings.NewReader(text)), content: text},
		{name: "DataErrReader", rd: iotest.DataErrReader(strings.NewReader(text)), content: text},
		{name: "chunk+stutter", rd: &chunkReader{data: []byte(text), rng: rng, stutter: 5}, content: text},
		{name: "chunk", rd: &chunkReader{data: []byte(text), rng: rng}, content: text},
		{name: "bufio.Reader", rd: bufio.NewReaderSize(strings.NewReader(text), 16), content: text},
		{name: "io.MultiReader", rd: io.MultiReader(strings.NewReader(text[:len(text)/2]), strings.NewReader(text[len(text)/2:])), content: text},
		{name: "io.LimitReader", rd: io.LimitReader(strings.NewReader(text+"{{.Nope}}"), int64(len(text))), content: text},
	}
	// a strings.Reader and a bytes.Reader already positioned after k bytes
	k := 0
	if len(text) > 0 {
		k = rng.IntN(len(text) + 1)
	}
	sr := strings.NewReader(text)
	sr.Seek(int64(k), io.SeekStart)
	out = append(out, namedReader{name: fmt.Sprintf("strings.Reader at offset %d", k), rd: sr, content: text[k:]})
	// an io.Pipe fed by another goroutine in small writes
	pr, pw := io.Pipe()
	go func() {
		b := []byte(text)
		for len(b) > 0 {
			n := min(len(b), 1+len(b)/3)
			pw.Write(b[:n])
			b = b[n:]
		}
		pw.Close()
	}()
	out = append(out, namedReader{name: "io.Pipe", rd: pr, content: text})
	// regular files: at offset 0 and after k bytes were already consumed
	if dir := os.Getenv("VERIF_DIR"); dir != "" {
		for _, off := range []int{0, k} {
			f, err := os.CreateTemp(filepath.Join(dir, "out"), "tmpl-*.txt")
			if err != nil {
				continue
			}
			f.WriteString(text)
			f.Seek(0, io.SeekStart)
			if off > 0 {
				io.CopyN(io.Discard, f, int64(off))
			}
			name := f.Name()
			out = append(out, namedReader{name: fmt.Sprintf("*os.File at offset %d", off), rd: f, content: text[off:], cleanup: func() { f.Close(); os.Remove(name) }})
		}
	}
	return out
}

func checkReaders(w *W, rep lib.Report, vec, lang, text string, rng *rand.Rand) {
	c := tmplCase(rep, vec, lang, text)
	for _, nr := range readersFor(text, rng) {
		w.Eval(1)
		want, _, werr, _ := rep.ExportWithString(nr.content)
		got, gotNil, gerr, pan := rep.ExportWith(nr.rd)
		if nr.cleanup != nil {
			nr.cleanup()
		}
		name := nr.name
		c.Args["reader"] = name
		if pan != nil {
			w.Violate(Violation{Monitor: "C19", Check: "ExportWith does not panic", Case: c, Observed: pan.Value})
			continue
		}
		if (gerr == nil) != (werr == nil) || got != want || (gerr != nil && !gotNil) {
			w.Violate(Violation{Monitor: "C19", Check: "exporting from a reader is equivalent to exporting from a string with the reader's full content", Case: c,
				Observed: fmt.Sprintf("err=%s out=%q", lib.ErrClass(gerr), clip(got, 200)), Expected: fmt.Sprintf("err=%s out=%q", lib.ErrClass(werr), clip(want, 200))})
		}
		if gerr != nil && !errors.Is(gerr, cvsserr.ErrInvalidTemplate) {
			w.Violate(Violation{Monitor: "C19", Check: "a failed reader export yields the invalid-template sentinel", Case: c, Observed: lib.ErrClass(gerr)})
		}
	}
	// fault injection: the reader fails after k bytes
	for _, k := range []int{0, 1, len(text) / 2, len(text) - 1, len(text)} {
		if k < 0 {
			continue
		}
		w.Eval(1)
		w.Count("reader_faults_injected")
		fi := int(Hash(text)>>7+uint64(k)) % len(readFaults)
		with := (Hash(text)>>17+uint64(k))%3 == 0
		c.Args["reader"] = fmt.Sprintf("fails after %d bytes with %T %q (returned with the last bytes: %v)", k, readFaults[fi], readFaults[fi].Error(), with)
		got, gotNil, gerr, pan := rep.ExportWith(&failAfter{data: []byte(text), n: k, err: readFaults[fi], with: with})
		if pan != nil {
			w.Violate(Violation{Monitor: "C19", Check: "ExportWith does not panic on a failing reader", Case: c, Observed: pan.Value})
			continue
		}
		if gerr == nil || !errors.Is(gerr, cvsserr.ErrInvalidTemplate) {
			w.Violate(Violation{Monitor: "C19", Check: "a failing reader yields the invalid-template sentinel", Case: c, Observed: lib.ErrClass(gerr), Expected: "ErrInvalidTemplate"})
		}
		if !gotNil {
			w.Violate(Violation{Monitor: "C19", Check: "a failing reader yields no output", Case: c, Observed: clip(got, 200)})
		}
	}
	delete(c.Args, "reader")
}

func checkNilCases(w *W, rep lib.Report, vec, lang string) {
	c := tmplCase(rep, vec, lang, "{{.Vector}}")
	// nil reader
	w.Eval(1)
	c.Args["reader"] = "nil"
	got, gotNil, gerr, pan := rep.ExportWith(nil)
	if pan != nil {
		w.Violate(Violation{Monitor: "C19", Check: "ExportWith(nil) does not panic", Case: c, Observed: pan.Value})
	} else if gerr == nil || !errors.Is(gerr, cvsserr.ErrInvalidTemplate) || !gotNil {
		w.Violate(Violation{Monitor: "C19", Check: "a nil reader yields the invalid-template sentinel and no output", Case: c, Observed: fmt.Sprintf("err=%s out=%q nil=%v", lib.ErrClass(gerr), got, gotNil)})
	}
	// nil report
	nr := lib.NilReport(rep.Level)
	c.Args["reader"] = "nil report"
	for i := 0; i < 2; i++ {
		w.Eval(1)
		var gerr error
		var gotNil bool
		var pan *lib.Panic
		if i == 0 {
			_, gotNil, gerr, pan = nr.ExportWithString("{{.Vector}}")
		} else {
			_, gotNil, gerr, pan = nr.ExportWith(strings.NewReader("{{.Vector}}"))
		}
		if pan != nil {
			w.Violate(Violation{Monitor: "C19", Check: "export on a nil report does not panic", Case: c, Observed: pan.Value})
		} else if gerr == nil || !errors.Is(gerr, cvsserr.ErrNullPointer) || !gotNil {
			w.Violate(Violation{Monitor: "C19", Check: "a nil report yields the null-pointer sentinel and no output", Case: c, Observed: fmt.Sprintf("err=%s nil=%v", lib.ErrClass(gerr), gotNil)})
		}
	}
}

func runC19(r *Run) int {
	r.CleanOut()
	st := &c19stats{}
	nT := r.Pick(20000, 1000000)
	distinct := newHashBits()
	r.Parallel(nT/20, 2, func(w *W, blk int) {
		rng := r.Rng(uint64(blk) + 1)
		// one vector per block, reports of all three levels in two languages
		v := newV3(rng.IntN(2), rng.IntN(nBase3))
		randOptional3(&v, spec.LEnv, rng)
		vec := render3(&v, spec.LEnv, nil)
		o, err, pan := lib.Decode(lib.K3E, vec, false)
		if err != nil || pan != nil || o.IsNil() {
			w.Count("valid_vector_not_decoded")
			return
		}
		tv, _, _ := o.TemporalView()
		bv, _, _ := o.BaseView()
		objs := []lib.Obj{bv, tv, o}
		var reps [3][2]lib.Report
		langs := []string{"en", "ja"}
		for l := 0; l < 3; l++ {
			for li, lang := range langs {
				rep, pan := lib.NewReport(objs[l], tagOf(lang), true)
				if pan != nil {
					w.Count("report_construction_panicked")
					return
				}
				reps[l][li] = rep
			}
		}
		var ring []struct {
			l    int
			text string
		}
		var held *heldReader
		for k := 0; k < 20; k++ {
			g := &tmplGen{rng: rng}
			for l := 0; l < 3; l++ {
				g.refs = reportFieldRefs(l)
				var text string
				if rng.IntN(3) == 0 {
					text = g.invalid()
				} else {
					text = g.valid(2)
				}
				distinct.add(text)
				for li, lang := range langs {
					checkExport(w, st, reps[l][li], vec, lang, text)
				}
				// read the returned reader in small pieces / one byte at a time
				if rng.IntN(4) == 0 {
					if want, werr := oracleTemplate(reps[l][1].Ptr(), text); werr == nil {
						if rd, err, pan := reps[l][1].ExportRaw(text); err == nil && pan == nil && rd != nil {
							w.Eval(1)
							var got []byte
							buf := make([]byte, 1+rng.IntN(7))
							for {
								n, e := rd.Read(buf)
								got = append(got, buf[:n]...)
								if e != nil {
									break
								}
							}
							if string(got) != want {
								w.Violate(Violation{Monitor: "C19", Check: "reading the returned reader in small pieces yields the same text", Case: tmplCase(reps[l][1], vec, "ja", text), Observed: clip(string(got), 300), Expected: clip(want, 300)})
							}
						}
					}
				}
				// hold the reader of a successful export undrained across the following exports
				if want, werr := oracleTemplate(reps[l][0].Ptr(), text); werr == nil && held == nil && rng.IntN(3) == 0 {
					if rd, err, pan := reps[l][0].ExportRaw(text); err == nil && pan == nil && rd != nil {
						held = &heldReader{rd: rd, want: want, c: tmplCase(reps[l][0], vec, "en", text)}
					}
				} else if held != nil && rng.IntN(2) == 0 {
					checkHeld(w, st, held)
					held = nil
				}
				// re-export an earlier template of this process (definitions of later templates must not leak into it)
				if len(ring) > 0 && rng.IntN(2) == 0 {
					e := ring[rng.IntN(len(ring))]
					st.reexported.Add(1)
					checkExport(w, st, reps[e.l][rng.IntN(2)], vec, "en/ja", e.text)
				}
				if (strings.Contains(text, "{{define") || strings.Contains(text, "{{block") || strings.Contains(text, "{{template")) && !strings.Contains(text, "{{define \"r\"}}") {
					if len(ring) < 12 {
						ring = append(ring, struct {
							l    int
							text string
						}{l, text})
					} else {
						ring[rng.IntN(len(ring))] = struct {
							l    int
							text string
						}{l, text}
					}
				}
				if k == 0 {
					checkReaders(w, reps[l][rng.IntN(2)], vec, "en/ja", text, rng)
				}
				if blk%97 == 0 && k == 1 && l == 2 {
					out, werr := oracleTemplate(reps[l][0].Ptr(), text)
					w.Sample(map[string]interface{}{"template": clip(text, 300), "level": l, "text/template_error": fmt.Sprint(werr), "output": clip(out, 200)})
				}
			}
		}
		checkHeld(w, st, held)
		if blk%50 == 0 {
			for l := 0; l < 3; l++ {
				checkNilCases(w, reps[l][0], vec, "en")
			}
			// deep nesting and many definitions
			var deep strings.Builder
			depth := 20 + rng.IntN(180)
			for d := 0; d < depth; d++ {
				fmt.Fprintf(&deep, "{{if .Vector}}{{with .BaseScore}}%d:", d)
			}
			deep.WriteString("{{.}}")
			for d := 0; d < depth; d++ {
				deep.WriteString("{{end}}{{end}}")
			}
			checkExport(w, st, reps[rng.IntN(3)][rng.IntN(2)], vec, "en/ja", deep.String())
			var many strings.Builder
			for d := 0; d < 150; d++ {
				fmt.Fprintf(&many, "{{define \"d%d\"}}<%d {{.}}>{{end}}", d, d)
			}
			for d := 0; d < 150; d += 7 {
				fmt.Fprintf(&many, "{{template \"d%d\" .SeverityValue}}", d)
			}
			checkExport(w, st, reps[rng.IntN(3)][rng.IntN(2)], vec, "en/ja", many.String())
			// large templates (> 64 KiB) and a 1 MB literal
			big := strings.Repeat("{{.Vector}} 攻撃 ", 6000)
			checkExport(w, st, reps[2][0], vec, "en", big)
			checkReaders(w, reps[2][1], vec, "ja", big, rng)
			if blk%500 == 0 {
				checkExport(w, st, reps[1][0], vec, "en", strings.Repeat("x", 1<<20)+"{{.TemporalScore}}")
			}
		}
	})
	r.Extra("templates", map[string]int64{"rendered_identically": st.ok.Load(), "failed_to_parse_(both)": st.parseFail.Load(), "failed_to_execute_(both)": st.execFail.Load(),
		"readers_held_undrained_across_later_exports": st.held.Load(), "earlier_templates_re-exported_after_others": st.reexported.Load()})
	if r.Counter("valid_vector_not_decoded") > 0 || r.Counter("report_construction_panicked") > 0 {
		r.Inconclusive("%d vectors not decoded / %d report constructions panicked", r.Counter("valid_vector_not_decoded"), r.Counter("report_construction_panicked"))
	}
	return r.Finish("seeded template grammar (literal text incl. multi-byte/NUL/braces, field references of the report level incl. embedded and promoted paths, pipelines with printf/print/html/js/urlquery/len/index/slice/eq/ne/lt/and/or/not, if/else/with/range/define/template/block, variables, comments, trim markers; a third invalid: unbalanced actions, unknown fields/functions, type errors striking after output, missing template targets, unterminated strings/comments/actions, runaway recursion) x reports of the three levels x {English, Japanese}; oracle = text/template of the same toolchain on the same template and report: both fail or both succeed, identical bytes on success, invalid-template sentinel and nil reader on failure; reader path: strings.Reader, bytes.Buffer, one-byte/half/chunk/stutter/(n>0,EOF) readers must equal ExportWithString; readers failing after k bytes, nil reader, nil reports; readers of successful exports held undrained across later exports; earlier templates (with define/block/template) re-exported after others; distinct non-trivial = distinct template texts (hash bitmap, conservative)",
		false, distinct.count(), int64(nT), int64(nT/2), TrustedBase)
}

func replayC19(r *Run, c Case) {
	w := r.NewW()
	defer w.Merge()
	st := &c19stats{}
	k := kindByName(c.Kind)
	vec := c.Args["vector"]
	o, err, _ := lib.Decode(lib.K3E, vec, false)
	if err != nil {
		fmt.Println("replay: vector not decoded", err)
		return
	}
	switch k {
	case lib.K3B:
		o, _, _ = o.BaseView()
	case lib.K3T:
		o, _, _ = o.TemporalView()
	}
	for _, lang := range []string{"en", "ja"} {
		rep, _ := lib.NewReport(o, tagOf(lang), true)
		checkExport(w, st, rep, vec, lang, c.GetInput())
		checkReaders(w, rep, vec, lang, c.GetInput(), r.Rng(3))
		checkNilCases(w, rep, vec, lang)
		out, werr := oracleTemplate(rep.Ptr(), c.GetInput())
		fmt.Printf("replay template on %s/%s: text/template -> err=%v out=%q\n", c.Kind, lang, werr, clip(out, 300))
	}
}
