//go:build race

package mon

const raceBuild = true
