package mon

import (
	"fmt"
	"math/rand/v2"
	"sort"
	"strings"
	"sync"
	"sync/atomic"

	m3 "github.com/goark/go-cvss/v3/metric"

	"verif/harness/lib"
	"verif/harness/spec"
)

func tenthEq(got float64, k int) bool { return got == float64(k)/10 }

func decodeCase(k lib.Kind, s string, nilRecv bool) Case {
	c := Case{Type: "decode", Kind: k.String(), NilRcv: nilRecv}
	c.SetInput(s)
	return c
}

// decodeCaseMode records the receiver mode (lib.Recv*).
func decodeCaseMode(k lib.Kind, s string, mode int) Case {
	c := decodeCase(k, s, mode == lib.RecvNil)
	if mode != lib.RecvFresh && mode != lib.RecvNil {
		c.Args = map[string]string{"receiver": lib.ModeNames[mode]}
	}
	return c
}

// caseMode recovers the receiver mode of a replayed case.
func caseMode(c Case) int {
	if c.NilRcv {
		return lib.RecvNil
	}
	return lib.ModeByName(c.Args["receiver"])
}

func kindByName(n string) lib.Kind {
	for i, s := range lib.KindNames {
		if s == n {
			return lib.Kind(i)
		}
	}
	return -1
}

// scoreSet collects the distinct score values seen (tenths 0..100).
type scoreSet struct {
	bits [101]atomic.Bool
}

func (s *scoreSet) add(f float64) {
	k := int(f*10 + 0.5)
	if k >= 0 && k <= 100 {
		s.bits[k].Store(true)
	}
}
func (s *scoreSet) list() []float64 {
	var out []float64
	for k := range s.bits {
		if s.bits[k].Load() {
			out = append(out, float64(k)/10)
		}
	}
	return out
}

// obsScores3 decodes s at level and returns the scores observed through the
// views: base (via BaseMetrics), temporal (via TemporalMetrics or the object
// itself), environmental.  ok=false when the valid vector was rejected or a
// query panicked (counted; the acceptance/no-panic properties judge those).
func obsScores3(w *W, level int, s string) (b, t, e float64, ok bool) {
	k := lib.Kind3(level)
	o, err, pan := lib.DecodeAuto(k, s)
	if pan != nil || err != nil || o.IsNil() {
		w.Count("valid_vector_not_decoded")
		w.Sample(map[string]string{"not_decoded": s, "kind": k.String(), "err": lib.ErrText(err)})
		return 0, 0, 0, false
	}
	if Hash(s)%8 == 5 {
		// object origin: persisted with encoding/json and restored into a zero struct (every metric field and
		// embedded pointer is exported); the scores are those of the restored object
		if c, ok := lib.JSONRoundTrip(o); ok {
			o = c
			w.Count("objects_restored_from_their_JSON_form")
		}
	}
	bv, _, p1 := o.BaseView()
	if p1 != nil || bv.IsNil() {
		w.Count("base_view_unavailable")
		return 0, 0, 0, false
	}
	var p2, p3, p4 *lib.Panic
	// query order (determined by the string, so a replay repeats it): a quarter of the objects of the
	// temporal and environmental level are asked from the top down - the object's own score (or severity)
	// first, the base score last - the order of a client that only wants the final rating and looks at
	// the base score afterwards
	topDown := level > spec.LBase && Hash(s)%4 == 2
	if topDown {
		w.Count("objects_queried_top_down_(own_score_first,_base_score_last)")
		if Hash(s)%8 == 6 {
			o.Severity()
		}
	} else {
		b, p2 = bv.Score()
	}
	switch level {
	case spec.LTemp:
		t, p3 = o.Score()
	case spec.LEnv:
		tv, _, p := o.TemporalView()
		if p != nil || tv.IsNil() {
			w.Count("temporal_view_unavailable")
			return 0, 0, 0, false
		}
		if topDown {
			e, p4 = o.Score()
			t, p3 = tv.Score()
		} else {
			t, p3 = tv.Score()
			e, p4 = o.Score()
		}
	}
	if topDown {
		b, p2 = bv.Score()
	}
	if p2 != nil || p3 != nil || p4 != nil {
		w.Count("score_panicked")
		return 0, 0, 0, false
	}
	return b, t, e, true
}

// ---------------------------------------------------------------------------
// C01
// ---------------------------------------------------------------------------

func init() {
	register(&Monitor{ID: "C01", Title: "v3 base score = FIRST base equations", Run: runC01, Replay: replayScore3})
	register(&Monitor{ID: "C02", Title: "v3 temporal score = FIRST temporal equation", Run: runC02, Replay: replayScore3})
	register(&Monitor{ID: "C03", Title: "v3 environmental score = FIRST environmental equations", Run: runC03, Replay: replayScore3})
}

func checkBase3(w *W, prop string, level int, s string, v *spec.V3, exp int, seen *scoreSet) {
	w.Eval(1)
	b, _, _, ok := obsScores3(w, level, s)
	if !ok {
		return
	}
	seen.add(b)
	if !tenthEq(b, exp) {
		w.Violate(Violation{Monitor: prop, Check: "base score equals exact FIRST value", Case: decodeCase(lib.Kind3(level), s, false),
			Observed: b, Expected: float64(exp) / 10})
	}
	allNone := v.M[spec.C] == 2 && v.M[spec.I] == 2 && v.M[spec.A] == 2
	if (b == 0) != allNone {
		w.Violate(Violation{Monitor: prop, Check: "base score is 0 exactly when C,I,A are all None", Case: decodeCase(lib.Kind3(level), s, false),
			Observed: b, Expected: fmt.Sprintf("zero=%v", allNone)})
	}
}

// otherVersionPrelude uses the OTHER CVSS version's package first, so that state shared between the two
// packages (if a change introduced any) is already filled when the version under test is used.
func otherVersionPrelude(r *Run, v2First bool) {
	n := 0
	if v2First {
		for bi := 0; bi < nBase2; bi++ {
			var v spec.V2
			base2(&v, bi)
			temporal2(&v, bi%100)
			env2(&v, bi%nEnv2)
			if o, err, _ := lib.Decode(lib.K2E, v.String(), false); err == nil {
				o.Score()
				n++
			}
		}
	} else {
		for bi := 0; bi < nBase3; bi += 3 {
			v := newV3(bi%2, bi)
			rng := r.Rng(uint64(bi) + 1<<50)
			randOptional3(&v, spec.LEnv, rng)
			if o, err, _ := lib.Decode(lib.K3E, render3(&v, spec.LEnv, nil), false); err == nil {
				o.Score()
				n++
			}
		}
	}
	r.Extra("vectors_of_the_other_CVSS_version_decoded_first", n)
}

func runC01(r *Run) int {
	r.CleanOut()
	otherVersionPrelude(r, true)
	tab := spec.Tables3()
	orders := r.Pick(3, 40)
	seen := &scoreSet{}
	var nontrivial atomic.Int64
	r.Parallel(2*nBase3, 16, func(w *W, idx int) {
		ver, bi := idx/nBase3, idx%nBase3
		v := newV3(ver, bi)
		exp := spec.Score3(&v).Base
		if exp > 0 {
			nontrivial.Add(1)
		}
		rng := r.Rng(uint64(idx) + 1)
		for level := 0; level < 3; level++ {
			// canonical order, no optional metrics
			vv := v
			checkBase3(w, "C01", level, render3(&vv, level, nil), &v, exp, seen)
			for o := 0; o < orders; o++ {
				vv = v
				randOptional3(&vv, level, rng)
				respell(&vv, level, rng)
				checkBase3(w, "C01", level, render3(&vv, level, rng), &v, exp, seen)
			}
		}
		// the orders other tools write (sorted by name / token, reversed, groups exchanged as blocks, rotated)
		for level := 0; level < 3; level++ {
			vv := v
			if level > 0 {
				randOptional3(&vv, level, rng)
			}
			for _, o := range namedOrders(vv.Tokens(level)) {
				checkBase3(w, "C01", level, join3("CVSS:"+spec.V3Versions[v.Ver], o), &v, exp, seen)
			}
		}
		// directly built struct, exported fields only
		w.Eval(1)
		bo := m3.NewBase()
		bo.Ver = m3.Version(lib.Ver3[ver])
		o := lib.Obj{Kind: lib.K3B, B3: bo}
		for m := spec.AV; m <= spec.A; m++ {
			o.SetField(m, lib.C3[m][v.M[m]])
		}
		if got, pan := o.Score(); pan != nil || !tenthEq(got, exp) {
			c := Case{Type: "v3struct", Kind: lib.K3B.String()}
			c.SetInput(v.Canonical(spec.LBase))
			w.Violate(Violation{Monitor: "C01", Check: "base score of a directly built Base equals exact FIRST value", Case: c, Observed: got, Expected: float64(exp) / 10})
		}
		// a Base that was DECODED from another vector and then had every exported field overwritten
		for _, lvl := range []int{spec.LBase, spec.LTemp, spec.LEnv} {
			w.Eval(1)
			other := newV3(rng.IntN(2), rng.IntN(nBase3))
			od, err, pan := lib.DecodeAuto(lib.Kind3(lvl), render3(&other, spec.LBase, rng))
			if err != nil || pan != nil || od.IsNil() {
				continue
			}
			if lvl == spec.LBase && rng.IntN(2) == 0 {
				od.Score() // ... possibly after it was scored once
			}
			od.SetVer(lib.Ver3[ver])
			for m := spec.AV; m <= spec.A; m++ {
				od.SetField(m, lib.C3[m][v.M[m]])
			}
			bv, _, _ := od.BaseView()
			if got, pan := bv.Score(); pan != nil || !tenthEq(got, exp) {
				c := Case{Type: "v3struct", Kind: lib.Kind3(lvl).String(), Args: map[string]string{"origin": "decoded from another vector, then every exported field overwritten", "origin_vector": render3(&other, spec.LBase, nil)}}
				c.SetInput(v.Canonical(spec.LBase))
				w.Violate(Violation{Monitor: "C01", Check: "base score of a decoded object whose exported fields were then overwritten equals the exact FIRST value of the new fields", Case: c, Observed: got, Expected: float64(exp) / 10})
			}
		}
		if idx%431 == 0 {
			w.Sample(map[string]interface{}{"vector": v.String(spec.LBase), "expected": float64(exp) / 10})
		}
	})
	// all 8! token orders for seed combinations
	nseed := r.Pick(4, 64)
	rng := r.Rng(0)
	var permEvals atomic.Int64
	var wg sync.WaitGroup
	for sIdx := 0; sIdx < nseed; sIdx++ {
		v := newV3(rng.IntN(2), rng.IntN(nBase3))
		wg.Add(1)
		go func(v spec.V3) {
			defer wg.Done()
			w := r.NewW()
			defer w.Merge()
			exp := spec.Score3(&v).Base
			toks := v.Tokens(spec.LBase)
			permutations(toks, func(p []string) {
				s := "CVSS:" + spec.V3Versions[v.Ver] + "/" + strings.Join(p, "/")
				checkBase3(w, "C01", spec.LBase, s, &v, exp, seen)
				permEvals.Add(1)
			})
		}(v)
	}
	wg.Wait()
	r.Extra("all_8_factorial_orders_vectors", nseed)
	r.Extra("permutation_decodes", permEvals.Load())
	r.Extra("score_values_seen", seen.list())
	r.Extra("appendixA_vs_exact_ceiling_disagreements_in_model", tab.AppendixADiffs)
	if r.Counter("valid_vector_not_decoded") > 0 || r.Counter("score_panicked") > 0 {
		r.Inconclusive("%d valid vectors were not decoded / %d queries panicked: scores unobservable there (C07/C12 judge that)", r.Counter("valid_vector_not_decoded"), r.Counter("score_panicked"))
	}
	r.ProcsChildren(1<<30, 1, 3, 7, 14)
	return r.Finish("all 2x2,592 (version, base combination) vectors, each decoded by the base, temporal and environmental decoder in canonical order and in seeded random token orders with random optional metrics (spelled or omitted), plus a directly built Base struct and objects decoded from another vector whose exported fields were then overwritten, plus all 8! token orders of seed vectors; oracle = exact big.Rat FIRST equations with exact ceiling; distinct non-trivial = distinct (version, combination) with non-zero expected score",
		true, nontrivial.Load(), 2*nBase3*4, 4000, TrustedBase)
}

// ---------------------------------------------------------------------------
// C02
// ---------------------------------------------------------------------------

func runC02(r *Run) int {
	r.CleanOut()
	otherVersionPrelude(r, true)
	seen := &scoreSet{}
	var nontrivial atomic.Int64
	envFrac := r.Pick(4, 1) // every envFrac-th vector also through the environmental decoder
	var weightSeen [3][5]atomic.Int64
	r.Parallel(2*nBase3*100, 64, func(w *W, idx int) {
		ti := idx % 100
		bi := idx / 100 % nBase3
		ver := idx / 100 / nBase3
		v := newV3(ver, bi)
		temporal3(&v, ti)
		sc := spec.Score3(&v)
		if sc.Temp != sc.Base {
			nontrivial.Add(1)
		}
		weightSeen[0][v.M[spec.E]].Add(1)
		weightSeen[1][v.M[spec.RL]].Add(1)
		weightSeen[2][v.M[spec.RC]].Add(1)
		rng := r.Rng(uint64(idx) + 1)
		vv := v
		respell(&vv, spec.LTemp, rng)
		var sh *rand.Rand
		if rng.IntN(3) == 0 {
			sh = rng
		}
		s := render3(&vv, spec.LTemp, sh)
		w.Eval(1)
		if b, t, _, ok := obsScores3(w, spec.LTemp, s); ok {
			seen.add(t)
			if !tenthEq(t, sc.Temp) {
				w.Violate(Violation{Monitor: "C02", Check: "temporal score equals Roundup(rounded base x E x RL x RC)", Case: decodeCase(lib.K3T, s, false),
					Observed: t, Expected: float64(sc.Temp) / 10, Note: fmt.Sprintf("base observed %v expected %v", b, float64(sc.Base)/10)})
			}
		}
		if idx%envFrac == 0 {
			vv = v
			// random environmental metrics must not influence the temporal view
			if rng.IntN(2) == 0 {
				randOptional3(&vv, spec.LEnv, rng)
				temporal3(&vv, ti)
			}
			respell(&vv, spec.LEnv, rng)
			s = render3(&vv, spec.LEnv, sh)
			w.Eval(1)
			if _, t, _, ok := obsScores3(w, spec.LEnv, s); ok {
				seen.add(t)
				if !tenthEq(t, sc.Temp) {
					w.Violate(Violation{Monitor: "C02", Check: "Environmental.TemporalMetrics().Score() equals the temporal equation", Case: decodeCase(lib.K3E, s, false),
						Observed: t, Expected: float64(sc.Temp) / 10})
				}
			}
		}
		// directly built Temporal struct (exported fields only, nothing decoded)
		w.Eval(1)
		to := lib.Obj{Kind: lib.K3T, T3: m3.NewTemporal()}
		to.SetVer(lib.Ver3[ver])
		for m := spec.AV; m <= spec.RC; m++ {
			to.SetField(m, lib.C3[m][v.Val(m)])
		}
		if got, pan := to.Score(); pan != nil || !tenthEq(got, sc.Temp) {
			c := Case{Type: "v3struct", Kind: lib.K3T.String()}
			c.SetInput(v.Canonical(spec.LTemp))
			w.Violate(Violation{Monitor: "C02", Check: "temporal score of a directly built Temporal equals the temporal equation", Case: c, Observed: got, Expected: float64(sc.Temp) / 10})
		}
		if idx%51841 == 0 {
			w.Sample(map[string]interface{}{"vector": s, "expected_temporal": float64(sc.Temp) / 10, "expected_base": float64(sc.Base) / 10})
		}
	})
	assembled3(r, "C02", 1)
	ws := map[string]map[string]int64{}
	for g, m := range []int{spec.E, spec.RL, spec.RC} {
		mm := map[string]int64{}
		for ci, c := range spec.V3Metrics[m].Codes {
			mm[c] = weightSeen[g][ci].Load()
		}
		ws[spec.V3Metrics[m].Name] = mm
	}
	r.Extra("temporal_value_occurrences", ws)
	r.Extra("score_values_seen", seen.list())
	if r.Counter("valid_vector_not_decoded") > 0 || r.Counter("score_panicked") > 0 {
		r.Inconclusive("%d valid vectors were not decoded / %d queries panicked", r.Counter("valid_vector_not_decoded"), r.Counter("score_panicked"))
	}
	r.ProcsChildren(1<<30, 1, 3, 7, 14)
	return r.Finish("all 518,400 (version, base, E, RL, RC) vectors through the temporal decoder (every X seed-determined spelled or omitted, a third in random token order) and "+
		map[bool]string{true: "all", false: "a quarter"}[envFrac == 1]+" of them through the environmental decoder's TemporalMetrics() (half with random environmental metrics added), and every one as a directly built Temporal struct; oracle = exact integer ceil of rounded-base x weights; distinct non-trivial = vectors whose expected temporal score differs from the base score",
		true, nontrivial.Load(), 518400, 100000, TrustedBase)
}

// ---------------------------------------------------------------------------
// C03
// ---------------------------------------------------------------------------

// effKey3 enumerates the effective-metric keys: ver(2) x av(4) x ac(2) x pr(3)
// x ui(2) x scope(2) x cia(27) x req-class(27) = 139,968.
const nEff3 = 2 * 96 * 27 * 27

var modBase = [spec.N3]int{spec.MAV: spec.AV, spec.MAC: spec.AC, spec.MPR: spec.PR, spec.MUI: spec.UI, spec.MS: spec.S, spec.MC: spec.C, spec.MI: spec.I, spec.MA: spec.A}

type repStats struct {
	capBound, msOverride, mprFallbackOverridden, zeroImpact atomic.Int64
}

// represent3 builds a concrete vector for effective key `key` and temporal
// index ti, choosing a seed-determined representation: every Modified metric
// is either explicit (base value arbitrary) or X (base carries the value);
// requirement class 0 is X or M.
func represent3(key, ti int, rng *rand.Rand, st *repStats) spec.V3 {
	req := key % 27
	key /= 27
	cia := key % 27
	key /= 27
	s := key % 2
	key /= 2
	ui := key % 2
	key /= 2
	pr := key % 3
	key /= 3
	ac := key % 2
	key /= 2
	av := key % 4
	key /= 4
	ver := key
	var v spec.V3
	v.Ver = ver
	var eff [spec.N3]int
	eff[spec.MAV], eff[spec.MAC], eff[spec.MPR], eff[spec.MUI], eff[spec.MS] = av, ac, pr, ui, s
	eff[spec.MC], eff[spec.MI], eff[spec.MA] = cia/9, cia/3%3, cia%3
	// every tenth temporal combination represents the whole group uniformly: all eight modified metrics written
	// and restating equal base metrics / none written / all eight written over random base metrics - so that
	// every effective tuple is also seen in these three forms, which independent coin flips give with
	// probability 2^-8 only
	uniform := -1
	if ti%10 == 3 {
		uniform = ti / 10 % 3
	}
	for mod := spec.MAV; mod <= spec.MA; mod++ {
		b := modBase[mod]
		nb := len(spec.V3Metrics[b].Codes)
		viaBase := rng.IntN(2) == 0
		switch uniform {
		case 0:
			v.M[mod] = int8(eff[mod] + 1)
			v.M[b] = int8(eff[mod])
			continue
		case 1:
			viaBase = true
		case 2:
			viaBase = false
		}
		if viaBase {
			v.M[mod] = 0 // X: base carries the value
			v.M[b] = int8(eff[mod])
		} else {
			v.M[mod] = int8(eff[mod] + 1)
			v.M[b] = int8(rng.IntN(nb))
		}
	}
	cls := [3]int{req / 9, req / 3 % 3, req % 3}
	for j, m := range [3]int{spec.CR, spec.IR, spec.AR} {
		switch cls[j] {
		case 0:
			if rng.IntN(2) == 0 {
				v.M[m] = 0
			} else {
				v.M[m] = 2
			}
		case 1:
			v.M[m] = 1
		case 2:
			v.M[m] = 3
		}
	}
	temporal3(&v, ti)
	if st != nil {
		if spec.Tables3().CapBound[cia][req] {
			st.capBound.Add(1)
		}
		if v.M[spec.MS] > 0 && int(v.M[spec.MS]-1) != int(v.M[spec.S]) {
			st.msOverride.Add(1)
			if v.M[spec.MPR] == 0 && v.M[spec.PR] > 0 {
				st.mprFallbackOverridden.Add(1)
			}
		}
	}
	return v
}

func structCase(v *spec.V3) Case {
	c := Case{Type: "v3struct", Kind: lib.K3E.String()}
	c.SetInput(v.Canonical(spec.LEnv))
	return c
}

type bitset struct{ w []atomic.Uint64 }

func newBitset(n int) *bitset { return &bitset{w: make([]atomic.Uint64, (n+63)/64)} }
func (b *bitset) set(i int) {
	m := uint64(1) << (uint(i) & 63)
	p := &b.w[i>>6]
	if p.Load()&m == 0 {
		p.Or(m)
	}
}
func (b *bitset) count() int64 {
	var n int64
	for i := range b.w {
		x := b.w[i].Load()
		for x != 0 {
			x &= x - 1
			n++
		}
	}
	return n
}

func runC03(r *Run) int {
	r.CleanOut()
	otherVersionPrelude(r, true)
	tab := spec.Tables3()
	// (0) re-validate the table against direct big.Rat evaluation on a sample
	{
		rng := r.Rng(99)
		bad := 0
		n := r.Pick(3000, 20000)
		for i := 0; i < n; i++ {
			v := newV3(rng.IntN(2), rng.IntN(nBase3))
			randOptional3(&v, spec.LEnv, rng)
			if spec.Score3(&v).Env != spec.EnvExactDirect(&v) {
				bad++
			}
		}
		r.Extra("model_table_revalidated_against_direct_bigRat", map[string]int{"samples": n, "disagreements": bad})
		if bad > 0 {
			r.Inconclusive("harness table disagrees with direct big.Rat evaluation on %d samples (harness defect)", bad)
		}
	}
	seen := &scoreSet{}
	st := &repStats{}
	distinct := newBitset(nEff3 * 100)
	var zeroExp atomic.Int64
	// (a) full effective x temporal product on directly built objects
	r.Parallel(nEff3, 8, func(w *W, key int) {
		rng := r.Rng(uint64(key) + 1)
		e := m3.NewEnvironmental()
		if key%8 == 3 { // object origin: decoded from some other vector (and scored once), then overwritten
			ov := newV3(rng.IntN(2), rng.IntN(nBase3))
			randOptional3(&ov, spec.LEnv, rng)
			if d, err, pan := lib.DecodeAuto(lib.K3E, render3(&ov, spec.LEnv, rng)); err == nil && pan == nil && !d.IsNil() {
				d.Score()
				e = d.E3
			}
		}
		if key%8 == 5 { // object origin: by-value copy of a decoded and already scored object (with its own lower levels)
			ov := newV3(rng.IntN(2), rng.IntN(nBase3))
			randOptional3(&ov, spec.LEnv, rng)
			if d, err, pan := lib.DecodeAuto(lib.K3E, render3(&ov, spec.LEnv, rng)); err == nil && pan == nil && !d.IsNil() {
				d.Score()
				d.Severity()
				c := lib.CopyOf(d)
				t := *c.E3.Temporal
				b := *t.Base
				t.Base = &b
				c.E3.Temporal = &t
				e = c.E3
			}
		}
		o := lib.Obj{Kind: lib.K3E, E3: e}
		for ti := 0; ti < 100; ti++ {
			v := represent3(key, ti, rng, st)
			lib.Fill3(e, &v)
			exp := spec.Score3(&v).Env
			got, pan := o.Score()
			w.Eval(1)
			if exp > 0 {
				distinct.set(key*100 + ti)
			} else {
				zeroExp.Add(1)
			}
			if pan != nil || !tenthEq(got, exp) {
				w.Violate(Violation{Monitor: "C03", Check: "environmental score of a directly built object equals the exact FIRST value", Case: structCase(&v), Observed: got, Expected: float64(exp) / 10})
			}
			seen.add(got)
		}
		if key%17497 == 0 {
			v := represent3(key, 37, rng, nil)
			w.Sample(map[string]interface{}{"vector": v.Canonical(spec.LEnv), "expected_env": float64(spec.Score3(&v).Env) / 10, "built": "struct"})
		}
	})
	// (a') all 518,400 vectors WITHOUT any environmental metric (every environmental metric Not Defined),
	// on directly built objects and, for a seeded eighth, through Decode with X spelled or omitted
	r.Parallel(2*nBase3, 8, func(w *W, idx int) {
		rng := r.Rng(uint64(idx) + 1<<42)
		e := m3.NewEnvironmental()
		o := lib.Obj{Kind: lib.K3E, E3: e}
		for ti := 0; ti < 100; ti++ {
			v := newV3(idx/nBase3, idx%nBase3)
			temporal3(&v, ti)
			for m := spec.CR; m <= spec.MA; m++ {
				v.M[m] = 0
			}
			lib.Fill3(e, &v)
			exp := spec.Score3(&v).Env
			got, pan := o.Score()
			w.Eval(1)
			w.Count("vectors_without_environmental_metrics")
			if pan != nil || !tenthEq(got, exp) {
				w.Violate(Violation{Monitor: "C03", Check: "environmental score of an object whose environmental metrics are all Not Defined equals the exact FIRST value", Case: structCase(&v), Observed: got, Expected: float64(exp) / 10})
			}
			if rng.IntN(8) == 0 {
				respell(&v, spec.LEnv, rng)
				s := render3(&v, spec.LEnv, nil)
				w.Eval(1)
				if _, _, ev, ok := obsScores3(w, spec.LEnv, s); ok && !tenthEq(ev, exp) {
					w.Violate(Violation{Monitor: "C03", Check: "environmental score of a decoded vector without environmental metrics equals the exact FIRST value", Case: decodeCase(lib.K3E, s, false), Observed: ev, Expected: float64(exp) / 10})
				}
			}
		}
	})
	// (b) through Decode with random order / omission
	nDec := r.Pick(300000, nEff3*100)
	r.Parallel(nDec, 64, func(w *W, i int) {
		rng := r.Rng(uint64(i) + 1<<40)
		var key, ti int
		if r.Thorough() {
			key, ti = i/100, i%100
		} else {
			key, ti = rng.IntN(nEff3), rng.IntN(100)
		}
		v := represent3(key, ti, rng, nil)
		exp := spec.Score3(&v)
		respell(&v, spec.LEnv, rng)
		var sh *rand.Rand
		if rng.IntN(2) == 0 {
			sh = rng
		}
		s := render3(&v, spec.LEnv, sh)
		w.Eval(1)
		w.Count("decoded_environmental_vectors")
		if _, _, e, ok := obsScores3(w, spec.LEnv, s); ok {
			if !tenthEq(e, exp.Env) {
				w.Violate(Violation{Monitor: "C03", Check: "environmental score of a decoded vector equals the exact FIRST value", Case: decodeCase(lib.K3E, s, false), Observed: e, Expected: float64(exp.Env) / 10})
			}
			seen.add(e)
		}
		if i%60013 == 0 {
			w.Sample(map[string]interface{}{"vector": s, "expected_env": float64(exp.Env) / 10, "built": "Decode"})
		}
	})
	// (b'') every presence pattern of the optional metrics, defined values, canonical or random order
	presencePatterns(r, r.Pick(2, 8), func(w *W, v *spec.V3, L int, rng *rand.Rand) {
		exp := spec.Score3(v)
		var sh *rand.Rand
		if rng.IntN(2) == 0 {
			sh = rng
		}
		s := render3(v, L, sh)
		w.Eval(1)
		if _, _, e, ok := obsScores3(w, spec.LEnv, s); ok && !tenthEq(e, exp.Env) {
			w.Violate(Violation{Monitor: "C03", Check: "environmental score of a decoded vector equals the exact FIRST value", Case: decodeCase(lib.K3E, s, false), Observed: e, Expected: float64(exp.Env) / 10})
		}
	})
	// (b') vectors decoded early in (b) are decoded again after hundreds of thousands of other distinct vectors
	if !r.Thorough() {
		r.Parallel(4000, 64, func(w *W, i int) {
			rng := r.Rng(uint64(i) + 1<<40)
			v := represent3(rng.IntN(nEff3), rng.IntN(100), rng, nil)
			exp := spec.Score3(&v)
			respell(&v, spec.LEnv, rng)
			var sh *rand.Rand
			if rng.IntN(2) == 0 {
				sh = rng
			}
			s := render3(&v, spec.LEnv, sh)
			w.Eval(1)
			w.Count("vectors_decoded_again_after_many_others")
			if _, _, e, ok := obsScores3(w, spec.LEnv, s); ok && !tenthEq(e, exp.Env) {
				w.Violate(Violation{Monitor: "C03", Check: "environmental score of a vector decoded again after many other vectors equals the exact FIRST value", Case: decodeCase(lib.K3E, s, false), Observed: e, Expected: float64(exp.Env) / 10})
			}
		})
	}
	// (c) seeded samples of the full version x base x environmental x temporal space (direct)
	if !r.Thorough() {
		nS := 20000000
		r.Parallel(nS/1000, 4, func(w *W, blk int) {
			rng := r.Rng(uint64(blk) + 1<<41)
			e := m3.NewEnvironmental()
			o := lib.Obj{Kind: lib.K3E, E3: e}
			for j := 0; j < 1000; j++ {
				v := newV3(rng.IntN(2), rng.IntN(nBase3))
				env3(&v, rng.IntN(nEnv3))
				temporal3(&v, rng.IntN(100))
				lib.Fill3(e, &v)
				exp := spec.Score3(&v).Env
				got, pan := o.Score()
				if pan != nil || !tenthEq(got, exp) {
					w.Violate(Violation{Monitor: "C03", Check: "environmental score of a directly built object equals the exact FIRST value (random full-space sample)", Case: structCase(&v), Observed: got, Expected: float64(exp) / 10})
				}
			}
			w.Eval(1000)
			w.CountN("random_full_space_samples", 1000)
		})
	} else {
		// (d) the full 2 x 2,592 x 2,211,840 product on directly built objects
		// (temporal metrics X; the temporal factor is covered by (a) and C02)
		r.Parallel(2*nBase3*64, 1, func(w *W, blk int) {
			// each block: one (ver, base, CR, IR, AR) prefix -> 34,560 env suffixes
			pre := blk % 64
			bi := blk / 64 % nBase3
			ver := blk / 64 / nBase3
			e := m3.NewEnvironmental()
			o := lib.Obj{Kind: lib.K3E, E3: e}
			v := newV3(ver, bi)
			v.M[spec.E], v.M[spec.RL], v.M[spec.RC] = 0, 0, 0
			const suffix = 5 * 3 * 4 * 3 * 3 * 4 * 4 * 4
			for sfx := 0; sfx < suffix; sfx++ {
				env3(&v, pre*suffix+sfx)
				lib.Fill3(e, &v)
				exp := spec.Score3(&v).Env
				got, pan := o.Score()
				if pan != nil || !tenthEq(got, exp) {
					w.Violate(Violation{Monitor: "C03", Check: "environmental score of a directly built object equals the exact FIRST value (full product)", Case: structCase(&v), Observed: got, Expected: float64(exp) / 10})
				}
			}
			w.Eval(suffix)
			w.CountN("full_product_cases", suffix)
		})
	}
	assembled3(r, "C03", r.Pick(8, 1))
	r.Extra("corner_coverage_in_effective_product", map[string]int64{
		"cap_0.915_binding":                       st.capBound.Load(),
		"modified_scope_overrides_base_scope":     st.msOverride.Load(),
		"MPR_X_falls_back_to_PR_under_overridden": st.mprFallbackOverridden.Load(),
		"expected_score_zero":                     zeroExp.Load(),
	})
	r.Extra("score_values_seen", seen.list())
	r.Extra("appendixA_vs_exact_ceiling_disagreements_in_model", tab.AppendixADiffs)
	if r.Counter("valid_vector_not_decoded") > 0 || r.Counter("score_panicked") > 0 {
		r.Inconclusive("%d valid vectors were not decoded / %d queries panicked", r.Counter("valid_vector_not_decoded"), r.Counter("score_panicked"))
	}
	rule := "(a') all 518,400 (version, base, temporal) vectors with every environmental metric Not Defined, built directly and (an eighth) decoded; (a) the full effective-metric x temporal product (2 versions x 96 exploitability/scope x 27 C/I/A x 27 requirement classes x 100 E/RL/RC = 13,996,800) on directly built objects, each with a seed-chosen representation (Modified explicit with arbitrary base value, or X with the base carrying it; MS X/U/C against S; requirement X or M); (b) "
	if r.Thorough() {
		rule += "the same product entirely through NewEnvironmental().Decode with random order/omission; (d) the full 2 x 2,592 x 2,211,840 (version x base x environmental) product on directly built objects"
	} else {
		rule += "300,000 of those through NewEnvironmental().Decode with random order/omission; (c) 20,000,000 seeded samples of the full version x base x environmental x temporal space on directly built objects"
	}
	rule += "; oracle = big.Rat table of the FIRST environmental equations, exact ceiling; distinct non-trivial = distinct (effective key, temporal combination) with non-zero expected score (bitmap)"
	r.ProcsChildren(20000, 1, 3, 7, 14)
	return r.Finish(rule, true, distinct.count(), nEff3*100, 1000000, TrustedBase)
}

// ---------------------------------------------------------------------------
// replay for C01..C03 (and the v3 part of C06/C13)
// ---------------------------------------------------------------------------

func replayScore3(r *Run, c Case) {
	w := r.NewW()
	defer w.Merge()
	s := c.GetInput()
	k := kindByName(c.Kind)
	switch c.Type {
	case "v3struct":
		p := spec.Parse3(s, max(k.Level(), 0))
		if !p.Accept {
			p = spec.Parse3(s, spec.LEnv)
		}
		if !p.Accept {
			fmt.Println("replay: struct case does not parse:", s)
			return
		}
		exp := spec.Score3(&p.V)
		e := lib.Build3(&p.V)
		if ov := c.Args["origin_vector"]; ov != "" {
			// object origin: decoded from another vector (tried with every receiver mode and with/without a prior Score), then overwritten
			for mode := 0; mode < 3; mode++ {
				for pre := 0; pre < 2; pre++ {
					if d, _, err, pan := lib.DecodeMode(lib.K3E, ov, mode); err == nil && pan == nil && !d.IsNil() {
						if pre == 1 {
							d.Score()
							bv, _, _ := d.BaseView()
							bv.Score()
						}
						lib.Fill3(d.E3, &p.V)
						if g := d.E3.BaseMetrics().Score(); !tenthEq(g, exp.Base) && r.ID == "C01" {
							w.Violate(Violation{Monitor: r.ID, Check: "base score of a decoded-then-overwritten object", Case: c, Observed: g, Expected: float64(exp.Base) / 10})
						}
						if g := d.E3.Score(); !tenthEq(g, exp.Env) && r.ID == "C03" {
							w.Violate(Violation{Monitor: r.ID, Check: "environmental score of a decoded-then-overwritten object", Case: c, Observed: g, Expected: float64(exp.Env) / 10})
						}
					}
				}
			}
		}
		got := e.Score()
		fmt.Printf("replay struct %s: env observed %v expected %v; temporal observed %v expected %v; base observed %v expected %v\n", s, got, float64(exp.Env)/10,
			e.TemporalMetrics().Score(), float64(exp.Temp)/10, e.BaseMetrics().Score(), float64(exp.Base)/10)
		if !tenthEq(got, exp.Env) && (r.ID == "C03" || k == lib.K3E) {
			w.Violate(Violation{Monitor: r.ID, Check: "environmental score (struct)", Case: c, Observed: got, Expected: float64(exp.Env) / 10})
		}
		if !tenthEq(e.TemporalMetrics().Score(), exp.Temp) && r.ID == "C02" {
			w.Violate(Violation{Monitor: r.ID, Check: "temporal score (struct)", Case: c, Observed: e.TemporalMetrics().Score(), Expected: float64(exp.Temp) / 10})
		}
		if !tenthEq(e.BaseMetrics().Score(), exp.Base) && r.ID == "C01" {
			w.Violate(Violation{Monitor: r.ID, Check: "base score (struct)", Case: c, Observed: e.BaseMetrics().Score(), Expected: float64(exp.Base) / 10})
		}
	case "decode":
		level := k.Level()
		p := spec.Parse3(s, level)
		if !p.Accept {
			fmt.Println("replay: not a valid vector for the model:", s, p.Defects.Names())
			return
		}
		exp := spec.Score3(&p.V)
		b, t, e, ok := obsScores3(w, level, s)
		fmt.Printf("replay decode %s %q: ok=%v base %v/%v temporal %v/%v env %v/%v (observed/expected)\n", c.Kind, s, ok, b, float64(exp.Base)/10, t, float64(exp.Temp)/10, e, float64(exp.Env)/10)
		if !ok {
			return
		}
		if r.ID == "C01" && !tenthEq(b, exp.Base) {
			w.Violate(Violation{Monitor: r.ID, Check: "base score", Case: c, Observed: b, Expected: float64(exp.Base) / 10})
		}
		if r.ID == "C02" && level >= spec.LTemp && !tenthEq(t, exp.Temp) {
			w.Violate(Violation{Monitor: r.ID, Check: "temporal score", Case: c, Observed: t, Expected: float64(exp.Temp) / 10})
		}
		if r.ID == "C03" && level == spec.LEnv && !tenthEq(e, exp.Env) {
			w.Violate(Violation{Monitor: r.ID, Check: "environmental score", Case: c, Observed: e, Expected: float64(exp.Env) / 10})
		}
	}
}

var _ = sort.Ints

// assembled3 checks v3 objects put together from separately decoded parts against the exact model.
func assembled3(r *Run, prop string, stride int) {
	hows := []string{"constructor result whose embedded decoder decoded the vector", "constructor result with its embedded pointer replaced by a decoded object", "struct literal around a decoded object"}
	n := 2 * nBase3 * 100
	if prop == "C02" {
		n = 2 * nBase3
	}
	r.Parallel(n/stride, 32, func(w *W, j int) {
		idx := j * stride
		var v spec.V3
		k := lib.K3E
		level := spec.LTemp
		if prop == "C02" {
			v = newV3(idx/nBase3, idx%nBase3)
			k, level = lib.K3T, spec.LBase
		} else {
			v = newV3(idx/100/nBase3, idx/100%nBase3)
			temporal3(&v, idx%100)
		}
		s := render3(&v, level, nil)
		exp := spec.Score3(&v)
		want := exp.Env
		if prop == "C02" {
			want = exp.Temp
		}
		for how := 0; how < 3; how++ {
			o, ok, pan := lib.Assemble(k, s, how)
			w.Eval(1)
			w.Count("assembled_objects")
			if pan != nil || !ok {
				w.Count("assembled_object_unavailable")
				continue
			}
			got, _ := o.Score()
			if !tenthEq(got, want) {
				c := decodeCase(k, s, false)
				c.Args = map[string]string{"assembled": hows[how]}
				w.Violate(Violation{Monitor: prop, Check: "the score of an object assembled from a separately decoded lower-level part equals the exact FIRST value of its metrics", Case: c, Observed: got, Expected: float64(want) / 10})
			}
		}
	})
}
