package mon

import (
	"encoding/json"
	"os"
	"path/filepath"
	"sync"
)

// KnownFinding is one entry of /verif/known_findings.json: a genuine defect
// recorded rather than repaired.  Keys is the closed list of affected inputs
// with the wrong value (in tenths) the library returns for each.  The file is
// committed and never written at run time.
type KnownFinding struct {
	ID       string         `json:"id"`
	Property string         `json:"property"`
	Site     string         `json:"site"`
	What     string         `json:"what"`
	Keys     map[string]int `json:"keys"`
}

type knownFile struct {
	Known []KnownFinding `json:"known"`
	Fixed []string       `json:"fixed"`
}

var (
	knownOnce sync.Once
	knownData knownFile
)

func loadKnown() *knownFile {
	knownOnce.Do(func() {
		path := os.Getenv("VERIF_KF")
		if path == "" {
			dir := os.Getenv("VERIF_DIR")
			if dir == "" {
				dir = "/verif"
			}
			path = filepath.Join(dir, "known_findings.json")
		}
		b, err := os.ReadFile(path)
		if err != nil {
			return
		}
		json.Unmarshal(b, &knownData)
	})
	return &knownData
}

// knownFor returns the known finding with the given id for a property (nil if
// not listed).
func knownFor(property, id string) *KnownFinding {
	for i := range loadKnown().Known {
		k := &loadKnown().Known[i]
		if k.Property == property && k.ID == id {
			return k
		}
	}
	return nil
}
