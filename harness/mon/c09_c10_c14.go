package mon

import (
	"fmt"
	"math/rand/v2"
	"strings"
	"sync/atomic"

	"verif/harness/lib"
	"verif/harness/spec"
)

func init() {
	register(&Monitor{ID: "C09", Title: "a decoded object holds exactly the metric values written in the vector", Run: runC09, Replay: replayValid})
	register(&Monitor{ID: "C10", Title: "encoding is canonical and decode-encode-decode is the identity", Run: runC10, Replay: replayValid})
	register(&Monitor{ID: "C14", Title: "base, temporal and environmental views of one vector agree", Run: runC14, Replay: replayValid})
}

// obsString renders one object's query results deterministically.
func obsString(o lib.Obj) string {
	if o.IsNil() {
		return "<nil>"
	}
	x := o.Observe()
	if x.Pan != nil {
		return "PANIC in " + x.PanOp + ": " + x.Pan.Value
	}
	return fmt.Sprintf("score=%v sev=%s err=%s enc=%q encerr=%s str=%q", x.Score, x.SevStr, lib.ErrClass(x.Err), x.Enc, lib.ErrClass(x.EncErr), x.Str)
}

// fullObs renders an object with all its views.
func fullObs(o lib.Obj) string {
	s := obsString(o)
	if bv, ok, _ := o.BaseView(); ok && o.Kind != lib.K3B {
		s += " | base: " + obsString(bv)
	}
	if tv, ok, _ := o.TemporalView(); ok {
		s += " | temporal: " + obsString(tv)
	}
	return s
}

// expectFields3 is the field assignment the reference gives for v at decoder level D.
func expectFields3(v *spec.V3, D int) []int {
	out := []int{lib.Ver3[v.Ver]}
	for m := 0; m < spec.V3LevelEnd(D); m++ {
		out = append(out, lib.C3[m][v.Val(m)])
	}
	return out
}

func sameInts(a, b []int) bool {
	if len(a) != len(b) {
		return false
	}
	for i := range a {
		if a[i] != b[i] {
			return false
		}
	}
	return true
}

// corpus3 yields valid v3 vectors: every (version, base combination) x level x
// `variants` seeded optional subsets.
func corpus3(r *Run, variants int, fn func(w *W, v *spec.V3, L int, rng *rand.Rand)) {
	r.Parallel(2*nBase3, 8, func(w *W, idx int) {
		rng := r.Rng(uint64(idx) + 1)
		for L := 0; L < 3; L++ {
			nv := variants
			if L == 0 {
				nv = 1
			}
			for k := 0; k < nv; k++ {
				v := newV3(idx/nBase3, idx%nBase3)
				for mi := spec.E; mi < spec.V3LevelEnd(L); mi++ {
					switch rng.IntN(4) {
					case 0: // omitted
					case 1:
						v.M[mi] = 0 // X spelled
					default:
						v.M[mi] = int8(rng.IntN(len(spec.V3Metrics[mi].Codes)))
					}
				}
				fn(w, &v, L, rng)
			}
		}
	})
	presencePatterns(r, 1+variants/16, fn)
}

// oneTransposition renders v at level with exactly two tokens exchanged, preferring two tokens of the same width.
func oneTransposition(v *spec.V3, level int, rng *rand.Rand) string {
	toks := v.Tokens(level)
	i, j := rng.IntN(len(toks)), rng.IntN(len(toks))
	for try := 0; try < 6 && (i == j || len(toks[i]) != len(toks[j])); try++ {
		i, j = rng.IntN(len(toks)), rng.IntN(len(toks))
	}
	toks[i], toks[j] = toks[j], toks[i]
	return "CVSS:" + spec.V3Versions[v.Ver] + "/" + strings.Join(toks, "/")
}

// corpus2 yields all 73,629 v2 base/temporal vectors, each without and with a seeded environmental group.
func corpus2(r *Run, envVariants int, fn func(w *W, v *spec.V2, rng *rand.Rand)) {
	r.Parallel(nBase2*101, 32, func(w *W, idx int) {
		rng := r.Rng(uint64(idx) + 1<<32)
		var v spec.V2
		base2(&v, idx/101)
		if ti := idx%101 - 1; ti >= 0 {
			temporal2(&v, ti)
		}
		fn(w, &v, rng)
		for k := 0; k < envVariants; k++ {
			env2(&v, rng.IntN(nEnv2))
			fn(w, &v, rng)
		}
	})
}

// ---------------------------------------------------------------------------
// C09
// ---------------------------------------------------------------------------

func checkFields3(w *W, v *spec.V3, L int, rng *rand.Rand, pairs *atomic.Int64) {
	for D := L; D <= spec.LEnv; D++ {
		k := lib.Kind3(D)
		want := expectFields3(v, D)
		// spellings of the same token set, at the DECODER's level: canonical order; random order; random order
		// with every X flipped between spelled and omitted (incl. the metrics of levels L+1..D, which the
		// vector does not write); every Not Defined metric of the decoder's level spelled; all of them omitted
		s1 := render3(v, L, nil)
		s2 := render3(v, L, rng)
		vv := *v
		for mi := spec.E; mi < spec.V3LevelEnd(D); mi++ { // flip spelled X <-> omitted
			if vv.M[mi] == 0 {
				vv.M[mi] = -1
			} else if vv.M[mi] < 0 {
				vv.M[mi] = 0
			}
		}
		s3 := render3(&vv, D, rng)
		va, vo := *v, *v
		for mi := spec.E; mi < spec.V3LevelEnd(D); mi++ {
			if va.M[mi] <= 0 {
				va.M[mi], vo.M[mi] = 0, -1
			}
		}
		s4, s5 := render3(&va, D, nil), render3(&vo, D, rng)
		// the fully spelled canonical vector with exactly two tokens exchanged (a decoder that reads a complete
		// vector by position keeps its layout when the two tokens have the same width)
		s6 := oneTransposition(&va, D, rng)
		// ... and in one of the orders other tools write (sorted by name / token, reversed, groups as blocks)
		no := namedOrders(va.Tokens(D))
		s7 := join3("CVSS:"+spec.V3Versions[v.Ver], no[rng.IntN(len(no))])
		no = namedOrders(v.Tokens(L))
		s8 := join3("CVSS:"+spec.V3Versions[v.Ver], no[rng.IntN(len(no))])
		var first string
		for i, s := range []string{s1, s2, s3, s4, s5, s6, s7, s8} {
			w.Eval(1)
			o, err, pan := lib.DecodeAuto(k, s)
			if pan != nil || err != nil || o.IsNil() {
				w.Count("valid_vector_not_decoded")
				continue
			}
			got := o.Fields()
			if !sameInts(got, want) {
				w.Violate(Violation{Monitor: "C09", Check: "every exported field equals the value written for that metric (unwritten optional metrics are Not Defined)", Case: decodeCase(k, s, false),
					Observed: fieldNames3(got), Expected: fieldNames3(want)})
			}
			ob := fullObs(o)
			if after := o.Fields(); !sameInts(after, want) {
				w.Violate(Violation{Monitor: "C09", Check: "the exported fields still equal the written values after the object has been queried", Case: decodeCase(k, s, false),
					Observed: fieldNames3(after), Expected: fieldNames3(want)})
			}
			if i == 0 {
				first = ob
				// the same decoder object used twice: first for another vector (or garbage), then for this one
				vo := seed3(rng, rng.IntN(D+1))
				checkReuse3(w, k, render3(&vo, D, rng), s, want, first)
				checkReuse3(w, k, []string{"garbage", "CVSS:3.1/ZZ:N", s + "/ZZ:N", "CVSS:3.1/E:U/RL:O/RC:U/MS:C/CR:H"}[rng.IntN(4)], s, want, first)
			} else {
				pairs.Add(1)
				if ob != first {
					w.Violate(Violation{Monitor: "C09", Check: "fields, scores, severities and encoding depend only on the token set (order; X spelled or omitted)", Case: decodeCase(k, s, false),
						Observed: ob, Expected: first, Note: "reference spelling: " + s1})
				}
			}
		}
	}
}

// checkReuse3 records (does NOT judge) what happens when a decoder object that has already been used for
// `first` is given the complete vector s.  No property speaks about re-using a decoder object: the unchanged
// library refuses a second complete vector after a successful decode ("exist same metric") and, after a failed
// one, may accept it with optional metrics left over from the failed attempt.  The counters go into the evidence.
func checkReuse3(w *W, k lib.Kind, first, s string, want []int, fresh string) {
	o, ok, pan := lib.DecodeReused(k, first, s)
	w.Count("reuse_(not_judged):second_decodes_on_a_used_decoder")
	if pan != nil || !ok {
		return
	}
	w.Count("reuse_(not_judged):accepted")
	if !sameInts(o.Fields(), want) || fullObs(o) != fresh {
		w.Count("reuse_(not_judged):accepted_but_observably_different_from_a_fresh_decode")
	}
}

func fieldNames3(f []int) string {
	var sb strings.Builder
	for i, v := range f {
		if i == 0 {
			fmt.Fprintf(&sb, "Ver=%d", v)
			continue
		}
		fmt.Fprintf(&sb, " %s=%d", spec.V3Metrics[i-1].Name, v)
	}
	return sb.String()
}

func checkFields2(w *W, v *spec.V2) {
	s := v.String()
	for D := v.MinLevel(); D <= spec.LEnv; D++ {
		k := lib.Kind2(D)
		w.Eval(1)
		o, err, pan := lib.DecodeAuto(k, s)
		if pan != nil || err != nil || o.IsNil() {
			w.Count("valid_vector_not_decoded")
			continue
		}
		c := decodeCase(k, s, false)
		for m := 0; m < spec.V2LevelEnd(D); m++ {
			written := m < spec.V2E || (m < spec.V2CDP && v.HasT) || (m >= spec.V2CDP && v.HasE)
			if !written {
				continue
			}
			got, ok := o.Field(m)
			if !ok || got != lib.C2[m][v.M[m]] {
				w.Violate(Violation{Monitor: "C09", Check: "every exported v2 field equals the value written for that metric", Case: c,
					Observed: fmt.Sprintf("%s=%d", spec.V2Metrics[m].Name, got), Expected: lib.C2[m][v.M[m]]})
			}
		}
		if D >= spec.LTemp {
			view := o
			if D == spec.LEnv {
				view, _, _ = o.TemporalView()
			}
			if e, ok, _ := view.IsEmpty(); !ok || e != !v.HasT {
				w.Violate(Violation{Monitor: "C09", Check: "v2 temporal IsEmpty() equals 'group not written'", Case: c, Observed: e, Expected: !v.HasT})
			}
		}
		if D == spec.LEnv {
			if e, ok, _ := o.IsEmpty(); !ok || e != !v.HasE {
				w.Violate(Violation{Monitor: "C09", Check: "v2 environmental IsEmpty() equals 'group not written'", Case: c, Observed: e, Expected: !v.HasE})
			}
		}
	}
}

func runC09(r *Run) int {
	r.CleanOut()
	var nt, pairs atomic.Int64
	corpus3(r, r.Pick(8, 40), func(w *W, v *spec.V3, L int, rng *rand.Rand) {
		nt.Add(1)
		checkFields3(w, v, L, rng, &pairs)
		if rng.IntN(4000) == 0 {
			w.Sample(map[string]interface{}{"vector": render3(v, L, nil), "expected_fields_at_env_decoder": fieldNames3(expectFields3(v, spec.LEnv))})
		}
	})
	r.Phase("v3")
	corpus2(r, r.Pick(3, 12), func(w *W, v *spec.V2, rng *rand.Rand) {
		nt.Add(1)
		checkFields2(w, v)
	})
	r.Phase("v2")
	r.Extra("order_and_spelling_variant_pairs_compared", pairs.Load())
	if r.Counter("valid_vector_not_decoded") > 0 {
		r.Inconclusive("%d valid vectors were not decoded (acceptance is judged by C07/C08)", r.Counter("valid_vector_not_decoded"))
	}
	r.ProcsChildren(6000, 1, 3, 7, 14)
	return r.Finish("valid-side corpus: every (version, base combination) x level x seeded optional subsets (v3), each decoded at every admitting decoder in canonical order, a random order, and a random order with every X flipped between spelled and omitted; all 73,629 v2 base/temporal vectors without and with seeded environmental groups at every admitting decoder; oracle = the harness's own assignment metric code -> library constant by name, and equality of the full observation (fields, scores, severities, encodings of all views) across spellings; distinct non-trivial = distinct corpus vectors",
		false, nt.Load(), 100000, 50000, TrustedBase)
}

// ---------------------------------------------------------------------------
// C10
// ---------------------------------------------------------------------------

func checkEncode(w *W, k lib.Kind, s, canonical string) {
	w.Eval(1)
	o, err, pan := lib.DecodeAuto(k, s)
	if pan != nil || err != nil || o.IsNil() {
		w.Count("valid_vector_not_decoded")
		return
	}
	c := decodeCase(k, s, false)
	if Hash(s)%4 == 1 {
		// call order (determined by the string, so a replay repeats it): a quarter of the objects are rated
		// first and encoded afterwards - the order of a client that scores a vector and then logs it
		w.Count("objects_scored_and_rated_before_they_are_encoded")
		o.Score()
		o.Severity()
		if tv, ok, _ := o.TemporalView(); ok && !tv.IsNil() {
			tv.Score()
		}
		if bv, ok, _ := o.BaseView(); ok && !bv.IsNil() {
			bv.Score()
		}
	}
	enc, eerr, p1 := o.Encode()
	str, p2 := o.String()
	if p1 != nil || p2 != nil {
		w.Violate(Violation{Monitor: "C10", Check: "Encode/String do not panic on a decoded object", Case: c, Observed: "panic"})
		return
	}
	if eerr != nil {
		w.Violate(Violation{Monitor: "C10", Check: "encoding a decoded object succeeds", Case: c, Observed: lib.ErrClass(eerr)})
	}
	if enc != canonical {
		w.Violate(Violation{Monitor: "C10", Check: "Encode() returns the canonical vector", Case: c, Observed: enc, Expected: canonical})
	}
	if str != enc {
		w.Violate(Violation{Monitor: "C10", Check: "String() returns the same text as Encode()", Case: c, Observed: str, Expected: enc})
	}
	o2, err2, pan2 := lib.DecodeAuto(k, enc)
	if pan2 != nil || err2 != nil || o2.IsNil() {
		w.Violate(Violation{Monitor: "C10", Check: "the encoding is accepted by the same decoder", Case: c, Observed: lib.ErrClass(err2), Note: "encoding: " + enc})
		return
	}
	if !sameInts(o.Fields(), o2.Fields()) {
		w.Violate(Violation{Monitor: "C10", Check: "decode(encode(x)) has the same fields", Case: c, Observed: fmt.Sprint(o2.Fields()), Expected: fmt.Sprint(o.Fields())})
	}
	if a, b := fullObs(o), fullObs(o2); a != b {
		w.Violate(Violation{Monitor: "C10", Check: "decode(encode(x)) has the same scores, severities and encoding", Case: c, Observed: b, Expected: a})
	}
}

// checkAcceptedRoundTrip: a string the library accepts at decoder k (whether or not the reference would) must
// encode, and its encoding must decode to the same object (v2: the encoding is the input, byte for byte).
func checkAcceptedRoundTrip(w *W, k lib.Kind, s string) {
	v2, level := k.V2(), k.Level()
	o, err, pan := lib.DecodeAuto(k, s)
	if err != nil || pan != nil || o.IsNil() {
		return
	}
	w.Eval(1)
	w.Count("library_accepted_strings_from_edit_workload")
	c := decodeCase(k, s, false)
	enc, eerr, _ := o.Encode()
	str, _ := o.String()
	if eerr != nil || str != enc {
		w.Violate(Violation{Monitor: "C10", Check: "encoding an accepted vector succeeds and String()==Encode()", Case: c, Observed: fmt.Sprint(enc, "|", str, "|", lib.ErrClass(eerr))})
	}
	if v2 && enc != s {
		w.Violate(Violation{Monitor: "C10", Check: "the v2 encoding is byte-identical to the accepted input", Case: c, Observed: enc, Expected: s})
	}
	if !v2 {
		if p := spec.Parse3(s, level); p.Accept && enc != p.V.Canonical(level) {
			w.Violate(Violation{Monitor: "C10", Check: "Encode() returns the canonical vector", Case: c, Observed: enc, Expected: p.V.Canonical(level)})
		}
	}
	o2, err2, _ := lib.DecodeAuto(k, enc)
	if err2 != nil || o2.IsNil() {
		w.Violate(Violation{Monitor: "C10", Check: "the encoding of an accepted vector is accepted by the same decoder", Case: c, Observed: lib.ErrClass(err2), Note: "encoding: " + enc})
	} else if a, b := fullObs(o), fullObs(o2); a != b || !sameInts(o.Fields(), o2.Fields()) {
		w.Violate(Violation{Monitor: "C10", Check: "decode(encode(x)) has the same fields, scores, severities and encoding", Case: c, Observed: b, Expected: a})
	}
}

func runC10(r *Run) int {
	r.CleanOut()
	var nt atomic.Int64
	corpus3(r, r.Pick(10, 40), func(w *W, v *spec.V3, L int, rng *rand.Rand) {
		nt.Add(1)
		for D := L; D <= spec.LEnv; D++ {
			var sh *rand.Rand
			if rng.IntN(3) > 0 {
				sh = rng
			}
			s := render3(v, L, sh)
			checkEncode(w, lib.Kind3(D), s, v.Canonical(D))
			if rng.IntN(4) == 0 {
				// the same metrics, every Not Defined one of the decoder's level spelled, in one of the orders other tools
				// write (sorted by name / token, reversed, groups exchanged as blocks, rotated)
				va := *v
				for mi := spec.E; mi < spec.V3LevelEnd(D); mi++ {
					if va.M[mi] < 0 {
						va.M[mi] = 0
					}
				}
				no := namedOrders(va.Tokens(D))
				checkEncode(w, lib.Kind3(D), join3("CVSS:"+spec.V3Versions[v.Ver], no[rng.IntN(len(no))]), v.Canonical(D))
			}
			if rng.IntN(6000) == 0 {
				w.Sample(map[string]interface{}{"input": s, "decoder": lib.Kind3(D).String(), "canonical": v.Canonical(D)})
			}
		}
	})
	r.Phase("v3")
	corpus2(r, r.Pick(3, 12), func(w *W, v *spec.V2, rng *rand.Rand) {
		nt.Add(1)
		s := v.String()
		for D := v.MinLevel(); D <= spec.LEnv; D++ {
			checkEncode(w, lib.Kind2(D), s, s)
		}
	})
	r.Phase("v2")
	// every string of the edit workloads that the LIBRARY accepts (whether or not the reference would): the
	// statement is about every accepted vector, so a wrongly accepted one must still round-trip
	for _, v2 := range []bool{false, true} {
		v2 := v2
		nSeeds := r.Pick(150, 900)
		visit := func(w *W, s string, m *strMeta) {
			for level := 0; level < 3; level++ {
				checkAcceptedRoundTrip(w, kindOf(v2, level), s)
			}
		}
		r.Parallel(3*nSeeds, 1, func(w *W, i int) {
			L := i % 3
			rng := r.Rng(uint64(i) + 1<<44)
			if !v2 {
				v := seed3(rng, L)
				toks := toks3(&v, L, rng, rng.IntN(2) == 0)
				tokenEdits3(w, "CVSS:"+spec.V3Versions[v.Ver], toks, &strMeta{Src: "token-edit"}, visit)
			} else {
				v := seed2(rng, L)
				tokenEdits2(w, strings.Split(v.String(), "/"), &strMeta{Src: "token-edit", V2: true}, visit)
			}
			for k := 0; k < 200; k++ {
				var s string
				if !v2 {
					v := seed3(rng, L)
					s = join3("CVSS:"+spec.V3Versions[v.Ver], toks3(&v, L, rng, true))
				} else {
					v := seed2(rng, L)
					s = v.String()
				}
				visit(w, randomEdit(rng, randomEdit(rng, s, v2), v2), nil)
			}
		})
	}
	r.Phase("library-accepted strings of the edit workloads")
	if r.Counter("valid_vector_not_decoded") > 0 {
		r.Inconclusive("%d valid vectors were not decoded (acceptance is judged by C07/C08)", r.Counter("valid_vector_not_decoded"))
	}
	r.ProcsChildren(6000, 1, 3, 7, 14)
	return r.Finish("valid-side corpus (see C09) at every admitting decoder, v3 in canonical and random token orders with optional metrics written, spelled X, or omitted: Encode() error nil and text == the harness's canonical string (v3: prefix, specification order, every metric of the decoder's level spelled, X when undefined; v2: byte-identical to the input); String()==Encode(); Decode(Encode(x)) succeeds at the same level with identical fields and full observation; additionally every string of the token-edit and double-edit workloads that the library itself accepts must round-trip the same way (v2: byte-identical); distinct non-trivial = distinct corpus vectors",
		false, nt.Load(), 100000, 50000, TrustedBase)
}

// ---------------------------------------------------------------------------
// C14
// ---------------------------------------------------------------------------

type c14stats struct {
	accessorIsEmbedded, accessorIsCopy atomic.Int64
}

// cmpView compares the view obtained through the higher-level object with an
// independent lower-level decode of the projected vector.
func cmpView(w *W, what string, c Case, view lib.Obj, k lib.Kind, proj string) {
	w.Eval(1)
	if view.IsNil() {
		w.Violate(Violation{Monitor: "C14", Check: what + " is available", Case: c, Observed: "nil"})
		return
	}
	ind, err, pan := lib.DecodeAuto(k, proj)
	if pan != nil || err != nil || ind.IsNil() {
		w.Count("projection_not_decoded")
		return
	}
	a, b := obsString(view), obsString(ind)
	if a != b {
		w.Violate(Violation{Monitor: "C14", Check: what + " reports the score, severity and encoding of an independent decode of the projected vector", Case: c, Observed: a, Expected: b, Note: "projection: " + proj})
	}
}

func runC14(r *Run) int {
	r.CleanOut()
	var nt atomic.Int64
	st := &c14stats{}
	corpus3(r, r.Pick(12, 60), func(w *W, v *spec.V3, L int, rng *rand.Rand) {
		if L == spec.LBase {
			return
		}
		nt.Add(1)
		toks := toks3(v, L, rng, rng.IntN(3) > 0)
		prefix := "CVSS:" + spec.V3Versions[v.Ver]
		if nt.Load()%4 == 0 {
			// every fourth vector fully spelled at its level, in canonical order but for two exchanged tokens
			va := *v
			for mi := spec.E; mi < spec.V3LevelEnd(L); mi++ {
				if va.M[mi] < 0 {
					va.M[mi] = 0
				}
			}
			toks = strings.Split(oneTransposition(&va, L, rng), "/")[1:]
			if nt.Load()%8 == 0 {
				no := namedOrders(va.Tokens(L))
				toks = no[rng.IntN(len(no))]
			}
		}
		s := join3(prefix, toks)
		proj := func(level int) string {
			var t []string
			for _, tok := range toks {
				name, _, _ := strings.Cut(tok, ":")
				if spec.V3Index(name) < spec.V3LevelEnd(level) {
					t = append(t, tok)
				}
			}
			return join3(prefix, t)
		}
		for D := L; D <= spec.LEnv; D++ {
			k := lib.Kind3(D)
			o, err, pan := lib.DecodeAuto(k, s)
			if pan != nil || err != nil || o.IsNil() {
				w.Count("valid_vector_not_decoded")
				continue
			}
			c := decodeCase(k, s, false)
			// a twin whose own score/severity/encoding/report are queried BEFORE its views are read
			if tw, err, _ := lib.DecodeAuto(k, s); err == nil && !tw.IsNil() {
				tw.Observe()
				if Hash(s)%257 == 0 { // a hot object: thousands of queries before its views are read
					for q := 0; q < 5000; q++ {
						tw.Score()
					}
					w.Count("objects_scored_5000_times_before_their_views_were_read")
				}
				doOp(tw, 8, 1)
				tbv, _, _ := tw.BaseView()
				cmpView(w, "BaseMetrics() read after the higher-level object was queried", c, tbv, lib.K3B, proj(spec.LBase))
				if D == spec.LEnv {
					ttv, _, _ := tw.TemporalView()
					cmpView(w, "TemporalMetrics() read after the higher-level object was queried", c, ttv, lib.K3T, proj(spec.LTemp))
				}
			}
			bv, _, _ := o.BaseView()
			cmpView(w, "BaseMetrics()", c, bv, lib.K3B, proj(spec.LBase))
			if eb, ok := o.EmbeddedBase(); ok {
				cmpView(w, "the exported embedded Base", c, eb, lib.K3B, proj(spec.LBase))
				if eb.B3 == bv.B3 {
					st.accessorIsEmbedded.Add(1)
				} else {
					st.accessorIsCopy.Add(1)
				}
			}
			if D == spec.LEnv {
				tv, _, _ := o.TemporalView()
				cmpView(w, "TemporalMetrics()", c, tv, lib.K3T, proj(spec.LTemp))
				if et, ok := o.EmbeddedTemporal(); ok {
					cmpView(w, "the exported embedded Temporal", c, et, lib.K3T, proj(spec.LTemp))
				}
				// the base view of the temporal view as well
				if !tv.IsNil() {
					tb, _, _ := tv.BaseView()
					cmpView(w, "TemporalMetrics().BaseMetrics()", c, tb, lib.K3B, proj(spec.LBase))
				}
			}
			// the same vector accepted by an already used decoder (vacuous when the library refuses re-use)
			if D == L && rng.IntN(4) == 0 {
				vo := seed3(rng, D)
				if _, ok, _ := lib.DecodeReused(k, render3(&vo, D, rng), s); ok {
					w.Count("reuse_(not_judged):second_decode_on_a_used_decoder_accepted")
				}
			}
			// ... and once more after the object itself has been queried
			o.Observe()
			cmpView(w, "BaseMetrics() (views read before and after the object was queried)", c, bv, lib.K3B, proj(spec.LBase))
		}
		if rng.IntN(5000) == 0 {
			w.Sample(map[string]interface{}{"vector": s, "base_projection": proj(spec.LBase), "temporal_projection": proj(spec.LTemp)})
		}
	})
	r.Phase("v3")
	corpus2(r, r.Pick(4, 16), func(w *W, v *spec.V2, rng *rand.Rand) {
		if v.MinLevel() == spec.LBase {
			// a bare base vector read by the higher decoders is compared too
		}
		nt.Add(1)
		s := v.String()
		lo := v.MinLevel()
		if lo < spec.LTemp {
			lo = spec.LTemp
		}
		for D := lo; D <= spec.LEnv; D++ {
			k := lib.Kind2(D)
			o, err, pan := lib.DecodeAuto(k, s)
			if pan != nil || err != nil || o.IsNil() {
				w.Count("valid_vector_not_decoded")
				continue
			}
			c := decodeCase(k, s, false)
			if tw, err, _ := lib.DecodeAuto(k, s); err == nil && !tw.IsNil() {
				tw.Observe()
				if Hash(s)%257 == 0 { // a hot object: thousands of queries before its views are read
					for q := 0; q < 5000; q++ {
						tw.Score()
					}
					w.Count("objects_scored_5000_times_before_their_views_were_read")
				}
				tbv, _, _ := tw.BaseView()
				cmpView(w, "BaseMetrics() read after the higher-level object was queried", c, tbv, lib.K2B, v.BaseString())
				if D == spec.LEnv {
					ttv, _, _ := tw.TemporalView()
					cmpView(w, "TemporalMetrics() read after the higher-level object was queried", c, ttv, lib.K2T, v.TemporalString())
				}
			}
			bv, _, _ := o.BaseView()
			cmpView(w, "BaseMetrics()", c, bv, lib.K2B, v.BaseString())
			if eb, ok := o.EmbeddedBase(); ok {
				cmpView(w, "the exported embedded Base", c, eb, lib.K2B, v.BaseString())
			}
			if D == spec.LEnv {
				tv, _, _ := o.TemporalView()
				cmpView(w, "TemporalMetrics()", c, tv, lib.K2T, v.TemporalString())
				if et, ok := o.EmbeddedTemporal(); ok {
					cmpView(w, "the exported embedded Temporal", c, et, lib.K2T, v.TemporalString())
				}
			}
		}
	})
	r.Phase("v2")
	r.Extra("accessor_returns_embedded_object_itself", st.accessorIsEmbedded.Load())
	r.Extra("accessor_returns_another_object_(recorded,_not_judged)", st.accessorIsCopy.Load())
	if r.Counter("valid_vector_not_decoded") > 0 || r.Counter("projection_not_decoded") > 0 {
		r.Inconclusive("%d valid vectors / %d projections were not decoded (acceptance is judged by C07/C08)", r.Counter("valid_vector_not_decoded"), r.Counter("projection_not_decoded"))
	}
	r.ProcsChildren(6000, 1, 3, 7, 14)
	return r.Finish("every accepted temporal / environmental vector of the valid-side corpus (v3: all base combinations x seeded optional subsets x random orders; v2: all 73,629 base/temporal vectors without and with seeded environmental groups) at every admitting higher-level decoder: BaseMetrics(), TemporalMetrics(), TemporalMetrics().BaseMetrics() and the exported embedded objects are compared (score, severity, validity, encoding, string) with an independent lower-level Decode of the harness's projection of the token list; distinct non-trivial = distinct corpus vectors of level >= temporal",
		false, nt.Load(), 200000, 50000, TrustedBase)
}

// replayValid replays a C09/C10/C14 case: the input is parsed by the reference
// recogniser and all assertions of the property are re-run on it.
func replayValid(r *Run, c Case) {
	w := r.NewW()
	defer w.Merge()
	k := kindByName(c.Kind)
	s := c.GetInput()
	rng := r.Rng(7)
	if k.V2() {
		p := spec.Parse2(s, k.Level())
		if !p.Accept {
			if r.ID == "C10" { // a string the library (wrongly) accepted: the round-trip assertions on it
				checkAcceptedRoundTrip(w, k, s)
			}
			fmt.Println("replay: not a valid v2 vector for the model:", s)
			return
		}
		switch r.ID {
		case "C09":
			checkFields2(w, &p.V)
		case "C10":
			checkEncode(w, k, s, s)
		case "C14":
			for pass := 0; pass < 2; pass++ {
				o, err, _ := lib.DecodeAuto(k, s)
				if err != nil {
					break
				}
				if pass == 1 {
					o.Observe() // views read after the object itself was queried
				}
				if bv, ok, _ := o.BaseView(); ok {
					cmpView(w, "BaseMetrics()", c, bv, lib.K2B, p.V.BaseString())
				}
				if tv, ok, _ := o.TemporalView(); ok {
					cmpView(w, "TemporalMetrics()", c, tv, lib.K2T, p.V.TemporalString())
				}
			}
		}
		fmt.Printf("replay %s %q: %s\n", c.Kind, s, fullObs(mustDecode(k, s)))
		return
	}
	p := spec.Parse3(s, k.Level())
	if !p.Accept {
		if r.ID == "C10" {
			checkAcceptedRoundTrip(w, k, s)
		}
		fmt.Println("replay: not a valid v3 vector for the model:", s)
		return
	}
	L := spec.LBase
	for mi := spec.E; mi < spec.N3; mi++ {
		if p.V.M[mi] >= 0 && spec.V3Metrics[mi].Level > L {
			L = spec.V3Metrics[mi].Level
		}
	}
	switch r.ID {
	case "C09":
		var pairs atomic.Int64
		checkFields3(w, &p.V, L, rng, &pairs)
		// and the literal input at its decoder
		o, err, _ := lib.DecodeAuto(k, s)
		if err == nil && !sameInts(o.Fields(), expectFields3(&p.V, k.Level())) {
			w.Violate(Violation{Monitor: "C09", Check: "fields", Case: c, Observed: fieldNames3(o.Fields()), Expected: fieldNames3(expectFields3(&p.V, k.Level()))})
		}
	case "C10":
		checkEncode(w, k, s, p.V.Canonical(k.Level()))
	case "C14":
		var bt, tt []string
		for _, tok := range strings.Split(s, "/")[1:] {
			name, _, _ := strings.Cut(tok, ":")
			if spec.V3Index(name) < spec.E {
				bt = append(bt, tok)
			}
			if spec.V3Index(name) < spec.CR {
				tt = append(tt, tok)
			}
		}
		prefix := "CVSS:" + spec.V3Versions[p.V.Ver]
		for pass := 0; pass < 2; pass++ {
			o, err, _ := lib.DecodeAuto(k, s)
			if err != nil {
				break
			}
			if pass == 1 {
				o.Observe() // views read after the object itself was queried
				doOp(o, 8, 1)
			}
			if bv, ok, _ := o.BaseView(); ok {
				cmpView(w, "BaseMetrics()", c, bv, lib.K3B, join3(prefix, bt))
			}
			if tv, ok, _ := o.TemporalView(); ok {
				cmpView(w, "TemporalMetrics()", c, tv, lib.K3T, join3(prefix, tt))
			}
		}
	}
	fmt.Printf("replay %s %q: %s\n", c.Kind, s, fullObs(mustDecode(k, s)))
}

func mustDecode(k lib.Kind, s string) lib.Obj {
	o, _, _ := lib.DecodeAuto(k, s)
	return o
}
