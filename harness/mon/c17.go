package mon

import (
	"fmt"
	"golang.org/x/text/language"
	"runtime"
	"sort"
	"strconv"
	"strings"
	"sync"
	"time"

	"verif/harness/lib"
	"verif/harness/spec"
)

func init() {
	register(&Monitor{ID: "C17", Title: "every report field shows its own metric, in the requested language", Run: runC17, Replay: replayC17})
}

var (
	titleByMetric = map[int]*lib.TitleFn{}
	valueByMetric = map[int]*lib.ValueFn{}
	titleByName   = map[string]*lib.TitleFn{}
	sevValueFn    *lib.ValueFn
)

func init() {
	for i := range lib.TitleFns {
		f := &lib.TitleFns[i]
		titleByName[f.Name] = f
		if f.Metric >= 0 {
			titleByMetric[f.Metric] = f
		}
	}
	for i := range lib.ValueFns {
		f := &lib.ValueFns[i]
		if f.Metric >= 0 {
			valueByMetric[f.Metric] = f
		} else {
			sevValueFn = f
		}
	}
}

// levelWiring is the harness's own table: report struct of a level -> its
// fields -> what each must show.
type fieldWire struct {
	name   string
	kind   string // title | value | version | vector | score | sevname | sevvalue | grouptitle | header
	metric int
	fn     string // names function for grouptitle/header
}

func metricWires(lo, hi int) []fieldWire {
	var out []fieldWire
	for m := lo; m < hi; m++ {
		n := spec.V3Metrics[m].Name
		out = append(out, fieldWire{name: n + "Name", kind: "title", metric: m}, fieldWire{name: n + "Value", kind: "value", metric: m})
	}
	return out
}

var reportWiring = [3][]fieldWire{
	append([]fieldWire{{name: "Version", kind: "version"}, {name: "Vector", kind: "vector"}, {name: "BaseMetrics", kind: "grouptitle", fn: "BaseMetrics"}, {name: "BaseMetricValue", kind: "header", fn: "BaseMetricsValueOf"},
		{name: "BaseScore", kind: "score"}, {name: "SeverityName", kind: "sevname"}, {name: "SeverityValue", kind: "sevvalue"}}, metricWires(spec.AV, spec.E)...),
	append([]fieldWire{{name: "Vector", kind: "vector"}, {name: "TemporalMetrics", kind: "grouptitle", fn: "TemporalMetrics"}, {name: "TemporalMetricValue", kind: "header", fn: "TemporalMetricsValueOf"},
		{name: "TemporalScore", kind: "score"}, {name: "SeverityName", kind: "sevname"}, {name: "SeverityValue", kind: "sevvalue"}}, metricWires(spec.E, spec.CR)...),
	append([]fieldWire{{name: "Vector", kind: "vector"}, {name: "EnvironmentalMetrics", kind: "grouptitle", fn: "EnvironmentalMetrics"}, {name: "EnvironmentalMetricValue", kind: "header", fn: "EnvironmentalMetricsValueOf"},
		{name: "EnvironmentalScore", kind: "score"}, {name: "SeverityName", kind: "sevname"}, {name: "SeverityValue", kind: "sevvalue"}}, metricWires(spec.CR, spec.N3)...),
}

// levelPrefix returns the path prefix under which the fields of sub-report
// level `sub` appear in a report of level `top`.
func levelPrefix(top, sub int) string {
	p := ""
	for l := top; l > sub; l-- {
		if l == 2 {
			p += "TemporalReport."
		} else {
			p += "BaseReport."
		}
	}
	return p
}

// expectReport computes the expected text of every field of the report of o's level.
func expectReport(o lib.Obj, langName string) map[string]string {
	lang := tagOf(langName)
	if otherLanguage(langName) {
		lang = language.English // a language that is neither English nor Japanese: English text
	}
	exp := map[string]string{}
	top := o.Kind.Level()
	for sub := 0; sub <= top; sub++ {
		view := o
		switch {
		case sub == 0 && top > 0:
			view, _, _ = o.BaseView()
		case sub == 1 && top == 2:
			view, _, _ = o.TemporalView()
		}
		prefix := levelPrefix(top, sub)
		for _, fw := range reportWiring[sub] {
			var s string
			switch fw.kind {
			case "version":
				v, _ := o.Ver()
				s = lib.VersionString3(v)
			case "vector":
				s, _, _ = view.Encode()
			case "score":
				f, _ := view.Score()
				s = strconv.FormatFloat(f, 'f', -1, 64)
			case "sevname":
				s = titleByName["Severity"].F(lang)
			case "sevvalue":
				n, _, _ := view.Severity()
				s = sevValueFn.F(n, lang)
			case "grouptitle", "header":
				s = titleByName[fw.fn].F(lang)
			case "title":
				s = titleByMetric[fw.metric].F(lang)
			case "value":
				v, _ := o.Field(fw.metric)
				s = valueByMetric[fw.metric].F(v, lang)
			}
			exp[prefix+fw.name] = s
		}
	}
	return exp
}

type c17stats struct {
	mu        sync.Mutex
	neighbour map[string]int64 // adjacent value fields whose expected texts differ
	unknown   map[string]bool
	crossSev  int64
}

var neighbourPairs = [][2]string{{"CValue", "IValue"}, {"IValue", "AValue"}, {"ACValue", "PRValue"}, {"PRValue", "UIValue"}, {"AVValue", "ACValue"}, {"EValue", "RLValue"}, {"RLValue", "RCValue"},
	{"CRValue", "IRValue"}, {"IRValue", "ARValue"}, {"MCValue", "MIValue"}, {"MIValue", "MAValue"}, {"MACValue", "MPRValue"}, {"MAVValue", "MACValue"}, {"MPRValue", "MUIValue"}, {"MUIValue", "MSValue"},
	{"CValue", "MCValue"}, {"IValue", "MIValue"}, {"AValue", "MAValue"}, {"AVValue", "MAVValue"}, {"SValue", "MSValue"}, {"CRValue", "MCValue"}}

// heldReport is a report built earlier whose fields are looked at again after other reports were built.
type heldReport struct {
	rep  lib.Report
	snap map[string]string
	c    Case
}

func (h *heldReport) recheck(w *W) {
	if h == nil || h.snap == nil {
		return
	}
	w.Eval(1)
	now, _ := h.rep.Flatten()
	for k, v := range h.snap {
		if now[k] != v {
			h.c.Args["held_report"] = "re-read after later reports were built"
			w.Violate(Violation{Monitor: "C17", Check: "a report keeps showing its own metrics object after other reports have been built (field " + k + ")", Case: h.c, Observed: now[k], Expected: v})
			return
		}
	}
}

func checkReport(w *W, st *c17stats, o lib.Obj, s string, langName string, withLang bool) {
	checkReportHold(w, st, o, s, langName, withLang, nil)
}

func checkReportHold(w *W, st *c17stats, o lib.Obj, s string, langName string, withLang bool, hold **heldReport) {
	w.Eval(1)
	c := decodeCase(o.Kind, s, false)
	c.Type = "report"
	c.Args = map[string]string{"lang": langName, "with_language_option": fmt.Sprint(withLang)}
	var rep lib.Report
	var pan *lib.Panic
	if first, last, two := strings.Cut(langName, ","); two {
		// two language options: the last one is the language requested
		c.Args["language_options"] = langName
		rep, pan = lib.NewReportLangs(o, tagOf(first), tagOf(last))
		langName = last
	} else {
		rep, pan = lib.NewReport(o, tagOf(langName), withLang)
	}
	if pan != nil {
		w.Violate(Violation{Monitor: "C17", Check: "report construction does not panic on a decoded object", Case: c, Observed: pan.Value})
		return
	}
	got, odd := rep.Flatten()
	if hold == nil {
		// the client edits the report it received (every exported string field): later reports must not show it
		defer func() { w.CountN("report_fields_overwritten_by_the_client_after_the_check", rep.Scribble()) }()
	}
	if hold != nil {
		(*hold).recheck(w) // the report built before this one
		*hold = &heldReport{rep: rep, snap: got, c: c}
	}
	exp := expectReport(o, langName)
	for path, want := range exp {
		g, ok := got[path]
		if !ok {
			w.Violate(Violation{Monitor: "C17", Check: "report field exists", Case: c, Observed: "missing " + path})
			continue
		}
		if g != want {
			w.Violate(Violation{Monitor: "C17", Check: "report field " + path + " shows its own metric / level in the requested language", Case: c, Observed: g, Expected: want})
		}
	}
	if len(got) != len(exp) || len(odd) > 0 {
		st.mu.Lock()
		for p := range got {
			if _, ok := exp[p]; !ok {
				st.unknown[p] = true
			}
		}
		for _, p := range odd {
			st.unknown[p] = true
		}
		st.mu.Unlock()
	}
	// counting what makes a mis-wiring visible
	top := o.Kind.Level()
	find := func(name string) (string, bool) {
		for sub := top; sub >= 0; sub-- {
			if v, ok := exp[levelPrefix(top, sub)+name]; ok {
				return v, true
			}
		}
		return "", false
	}
	st.mu.Lock()
	for _, p := range neighbourPairs {
		a, ok1 := find(p[0])
		b, ok2 := find(p[1])
		if ok1 && ok2 && a != b {
			st.neighbour[p[0]+"!="+p[1]]++
		}
	}
	if top > 0 {
		a := exp["SeverityValue"]
		b := exp[levelPrefix(top, 0)+"SeverityValue"]
		if a != b {
			st.crossSev++
		}
	}
	st.mu.Unlock()
	w.DistinctS("reports", s+"|"+langName+"|"+o.Kind.String())
}

var reportLangs = []string{"en", "ja", "und", "fr", "de-CH", "zh-Hant-TW", "ko", "enm", "jam", "ko-KR", "zh-TW", "ru-RU", "ar-EG", "und-Hans-JP"}

func runC17(r *Run) int {
	r.CleanOut()
	st := &c17stats{neighbour: map[string]int64{}, unknown: map[string]bool{}}
	variants := r.Pick(6, 24)
	r.Parallel(2*nBase3, 8, func(w *W, idx int) {
		rng := r.Rng(uint64(idx) + 1)
		var held *heldReport
		defer func() { held.recheck(w) }()
		for k := 0; k < variants; k++ {
			v := newV3(idx/nBase3, idx%nBase3)
			// the vector's own level cycles through base / temporal / environmental, so that reports of a
			// higher level are also built for vectors that carry none of that level's metrics
			vl := (k + idx) % 3
			randOptional3(&v, vl, rng)
			if k%3 == 2 {
				// a sparse vector: most optional metrics Not Defined, one to three of them set (combinations such as
				// "only CR:L and AR:H" have probability 1e-6 when every metric is drawn uniformly)
				for m := spec.E; m < spec.V3LevelEnd(vl); m++ {
					if rng.IntN(5) > 0 {
						v.M[m] = 0
					}
				}
			}
			respell(&v, vl, rng)
			for level := vl; level < 3; level++ {
				s := render3(&v, vl, nil)
				o, err, pan := lib.DecodeAuto(lib.Kind3(level), s)
				if err != nil || pan != nil || o.IsNil() {
					w.Count("valid_vector_not_decoded")
					continue
				}
				// English, Japanese, one other language, and the default (no option)
				langs := []string{"en", "ja", reportLangs[2+rng.IntN(len(reportLangs)-2)]}
				for _, l := range langs {
					checkReportHold(w, st, o, s, l, true, &held)
				}
				if rng.IntN(4) == 0 {
					checkReport(w, st, o, s, "en", false)
				}
				if rng.IntN(4) == 0 { // two language options, the last one wins
					pairs := []string{"ja,und", "ja,zero", "ja,fr", "en,ja", "ja,en", "fr,ja", "und,ja", "ja,und-JP", "ja,jam", "zero,ja"}
					checkReport(w, st, o, s, pairs[rng.IntN(len(pairs))], true)
				}
				// reports of the lower views of the same object
				if level == 2 && rng.IntN(3) == 0 {
					tv, _, _ := o.TemporalView()
					bv, _, _ := o.BaseView()
					checkReport(w, st, tv, s, "ja", true)
					checkReport(w, st, bv, s, "ja", true)
				}
				if rng.IntN(3000) == 0 {
					rep, _ := lib.NewReport(o, tagOf("ja"), true)
					got, _ := rep.Flatten()
					keys := make([]string, 0, len(got))
					for k := range got {
						keys = append(keys, k)
					}
					sort.Strings(keys)
					var few []string
					for _, k := range keys[:min(8, len(keys))] {
						few = append(few, k+"="+got[k])
					}
					w.Sample(map[string]interface{}{"vector": s, "lang": "ja", "report_level": level, "fields_total": len(got), "first_fields": few})
				}
			}
		}
	})
	// embedded lower-level reports that outlive their owner: only .TemporalReport / .BaseReport of a report are
	// kept, the owner is dropped, garbage collections run, further reports are built, and the kept ones are re-read
	{
		type keptRep struct {
			rep  lib.Report
			snap map[string]string
			c    Case
		}
		var kept []keptRep
		rng := r.Rng(4711)
		mk := func() {
			v := newV3(rng.IntN(2), rng.IntN(nBase3))
			randOptional3(&v, spec.LEnv, rng)
			s := render3(&v, spec.LEnv, nil)
			o, err, _ := lib.DecodeAuto(lib.K3E, s)
			if err != nil || o.IsNil() {
				return
			}
			rep, pan := lib.NewReport(o, tagOf(reportLangs[rng.IntN(3)]), true)
			if pan != nil {
				return
			}
			c := decodeCase(lib.K3E, s, false)
			c.Type = "report"
			c.Args = map[string]string{"kept": "only the embedded lower-level report; the owner was dropped and garbage collections ran"}
			// keep exactly ONE embedded part (so that everything above it becomes unreachable)
			sub := lib.Report{Level: 0, B: rep.E.TemporalReport.BaseReport}
			switch rng.IntN(3) {
			case 0:
				sub = lib.Report{Level: 1, T: rep.E.TemporalReport}
			case 1: // the base part of a temporal report built on its own
				if tv, ok, _ := o.TemporalView(); ok && !tv.IsNil() {
					if tr, pan := lib.NewReport(tv, tagOf(reportLangs[rng.IntN(3)]), true); pan == nil {
						sub = lib.Report{Level: 0, B: tr.T.BaseReport}
					}
				}
			}
			snap, _ := sub.Flatten()
			kept = append(kept, keptRep{sub, snap, c})
		}
		for i := 0; i < r.Pick(300, 3000); i++ {
			mk()
		}
		w := r.NewW()
		for round := 0; round < 3; round++ {
			runtime.GC()
			time.Sleep(5 * time.Millisecond) // finalizers run on their own goroutine
			runtime.GC()
			nk := len(kept)
			for i := 0; i < 300; i++ {
				mk() // further reports built in between (their embedded parts are kept as well)
			}
			for _, k := range kept[:nk] {
				w.Eval(1)
				now, _ := k.rep.Flatten()
				for f, v := range k.snap {
					if now[f] != v {
						w.Violate(Violation{Monitor: "C17", Check: "an embedded lower-level report keeps showing its own metrics object after its owner was dropped and other reports were built (field " + f + ")", Case: k.c, Observed: now[f], Expected: v})
						break
					}
				}
			}
		}
		w.Merge()
		r.Extra("embedded_reports_kept_after_their_owner_was_dropped", len(kept))
	}
	st.mu.Lock()
	var unk []string
	for p := range st.unknown {
		unk = append(unk, p)
	}
	sort.Strings(unk)
	r.Extra("report_fields_not_in_the_wiring_table_(unmonitored)", unk)
	r.Extra("reports_where_neighbouring_value_fields_differ", st.neighbour)
	r.Extra("reports_whose_top_level_severity_differs_from_the_base_severity", st.crossSev)
	st.mu.Unlock()
	if len(unk) > 0 {
		r.Note("report fields outside the wiring table were seen (unmonitored): %s", strings.Join(unk, ", "))
	}
	if r.Counter("valid_vector_not_decoded") > 0 {
		r.Inconclusive("%d valid vectors were not decoded", r.Counter("valid_vector_not_decoded"))
	}
	return r.Finish("all 2 x 2,592 base vectors, each as a base-only, a temporal-level and an environmental-level vector (seeded optional metrics; variants cycle through the three), decoded at every admitting decoder, x report level x {English, Japanese, one of und/fr/de-CH/zh-Hant-TW/ko/enm/jam, default}; every exported field of the three report structs is enumerated by reflection (embedded reports included, i.e. shadowed fields through their full path) and compared with the harness's wiring table (field -> metric / level / names function): Version, per-level Vector == that level's Encode(), score fields == FormatFloat(level score), severity fields == that level's severity name, titles and value names through the names package applied to the field's own metric in the requested language; every report is re-read after the next reports were built and must be unchanged; distinct non-trivial = distinct (vector, language, level) reports",
		false, int64(r.SetSize("reports")), 30000, 20000, TrustedBase)
}

func replayC17(r *Run, c Case) {
	w := r.NewW()
	defer w.Merge()
	st := &c17stats{neighbour: map[string]int64{}, unknown: map[string]bool{}}
	k := kindByName(c.Kind)
	s := c.GetInput()
	o, err, _ := lib.DecodeAuto(k, s)
	if err != nil {
		fmt.Println("replay: vector not decoded:", err)
		return
	}
	for _, l := range reportLangs {
		checkReport(w, st, o, s, l, true)
	}
	checkReport(w, st, o, s, "en", false)
	if lo := c.Args["language_options"]; lo != "" {
		checkReport(w, st, o, s, lo, true)
	}
	// after the client has overwritten the fields of the reports above: fresh reports again
	for _, l := range reportLangs[:3] {
		checkReport(w, st, o, s, l, true)
	}
}
