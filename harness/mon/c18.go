package mon

import (
	"fmt"
	"go/ast"
	"go/parser"
	"go/token"
	"math"
	"os"
	"path/filepath"
	"sort"
	"strings"
	"sync"

	"golang.org/x/text/language"

	"verif/harness/lib"
	"verif/harness/spec"
)

func init() {
	register(&Monitor{ID: "C18", Title: "localised names are total, unambiguous and fall back to English", Run: runC18, Replay: replayC18})
}

// otherLangTags are tags whose language is neither English nor Japanese.  They
// include languages whose code merely starts with "en"/"ja" (enm, jam, jv).
var otherLangTags = []string{"und", "fr", "de", "de-CH", "zh", "zh-Hant-TW", "zh-Hans-CN", "ko", "ko-KR", "es", "es-419", "ru", "ar", "he", "hi", "pt-BR", "sr-Latn", "it", "nl", "sv", "tr", "vi", "th",
	"enm", "jam", "jv", "eo", "mul", "zxx", "und-JP", "und-US", "und-Jpan", "und-Hira", "und-Kana-JP", "und-Latn", "fr-JP", "zh-JP", "ko-US", "x-klingon", "tlh", "yue-Hant-HK", "fr-u-ca-gregory", "de-1996", "sl-rozaj", "zh-Hant-u-co-pinyin", "fr-x-foo", "de-CH-1901", "es-u-nu-latn", "ar-u-nu-arab", "x-ja", "x-en", "und-x-ja", "fr-t-ja", "ko-t-en"}

// regionalTags are variants of English and Japanese: exercised, not judged.
var regionalTags = []string{"en-US", "en-GB", "en-AU", "en-Latn", "en-Latn-US", "ja-JP", "ja-Jpan", "ja-Latn", "ja-US", "en-JP", "en-001", "en-u-ca-gregory", "ja-u-ca-japanese"}

// prefixLangTags lists every language whose ISO 639 code merely starts with the letters of "ja" or "en"
// (jam, jax, enm, enq, ...; computed with language.Parse, keeping those whose base language is neither ja
// nor en), bare and with a region, a script, both, and an extension.
func prefixLangTags() []string {
	var out []string
	for _, p := range []string{"ja", "en"} {
		for c := 'a'; c <= 'z'; c++ {
			code := p + string(c)
			t, err := language.Parse(code)
			if err != nil {
				continue
			}
			if b, _ := t.Base(); b.String() == "ja" || b.String() == "en" || b.String() == "und" {
				continue
			}
			out = append(out, code)
			for _, suf := range []string{"-JM", "-JP", "-US", "-Latn", "-Jpan", "-Latn-JM", "-u-nu-latn", "-x-ja"} {
				if _, err := language.Parse(code + suf); err == nil {
					out = append(out, code+suf)
				}
			}
		}
	}
	return out
}

func init() {
	pl := prefixLangTags()
	otherLangTags = append(otherLangTags, pl...)
	for i, t := range pl { // a sample for the report monitors
		if i%7 == 0 {
			reportLangs = append(reportLangs, t)
		}
	}
}

// otherLanguage reports whether the named tag's language is neither English nor Japanese (so that English
// text is expected).
func otherLanguage(name string) bool {
	if name == "zero" {
		return true
	}
	b, _ := tagOf(name).Base()
	return b.String() != "en" && b.String() != "ja"
}

func tagOf(s string) language.Tag {
	if s == "zero" {
		return language.Tag{}
	}
	t, err := language.Parse(s)
	if err != nil {
		return language.Make(s)
	}
	return t
}

func namesCase(fn string, v int, hasV bool, lang string) Case {
	c := Case{Type: "names", Kind: fn, Args: map[string]string{"lang": lang}}
	if hasV {
		c.Args["value"] = fmt.Sprint(v)
	}
	return c
}

func callTitle(w *W, f *lib.TitleFn, lang string) (s string, ok bool) {
	defer func() {
		if r := recover(); r != nil {
			w.Violate(Violation{Monitor: "C18", Check: "names function does not panic", Case: namesCase(f.Name, 0, false, lang), Observed: fmt.Sprint(r)})
			ok = false
		}
	}()
	w.Eval(1)
	return f.F(tagOf(lang)), true
}

func callValue(w *W, f *lib.ValueFn, v int, lang string) (s string, ok bool) {
	defer func() {
		if r := recover(); r != nil {
			w.Violate(Violation{Monitor: "C18", Check: "names function does not panic", Case: namesCase(f.Name, v, true, lang), Observed: fmt.Sprint(r)})
			ok = false
		}
	}()
	w.Eval(1)
	return f.F(v, tagOf(lang)), true
}

// definedValues returns the defined constants of a value function with their codes.
func definedValues(f *lib.ValueFn) (consts []int, labels []string) {
	if f.Metric < 0 {
		for _, s := range lib.SeverityConsts {
			consts = append(consts, s.Const)
			labels = append(labels, s.Name)
		}
		return
	}
	return lib.C3[f.Metric], spec.V3Metrics[f.Metric].Codes
}

func checkValueFn(w *W, f *lib.ValueFn, jaUnknown *string) {
	consts, labels := definedValues(f)
	defined := map[int]bool{}
	maxc := 0
	for _, c := range consts {
		defined[c] = true
		if c > maxc {
			maxc = c
		}
	}
	for _, lang := range []string{"en", "ja"} {
		seen := map[string]string{}
		for i, c := range consts {
			s, ok := callValue(w, f, c, lang)
			if !ok {
				continue
			}
			w.DistinctS("value_names", f.Name+"/"+labels[i]+"/"+lang)
			if s == "" {
				w.Violate(Violation{Monitor: "C18", Check: "every defined value has a non-empty name", Case: namesCase(f.Name, c, true, lang), Observed: s})
			}
			if prev, dup := seen[s]; dup {
				w.Violate(Violation{Monitor: "C18", Check: "different defined values of one metric have different names within a language", Case: namesCase(f.Name, c, true, lang), Observed: s, Note: "same name as value " + prev})
			}
			seen[s] = labels[i]
		}
		// out-of-range values
		outs := []int{math.MinInt, math.MinInt32, math.MaxInt32, math.MaxInt, 1 << 32, 1<<32 + 1, 1<<32 + 2, 1 << 31, 1<<31 + 1, -(1 << 31) - 1}
		for v := -700; v <= 700; v++ {
			outs = append(outs, v)
		}
		for _, b := range []int{1 << 8, 1 << 15, 1 << 16, -(1 << 8), -(1 << 16), 1 << 24} {
			for d := -8; d <= 8; d++ {
				outs = append(outs, b+d)
			}
		}
		outs = append(outs, wrapInts...)
		for _, v := range outs {
			if defined[v] {
				continue
			}
			s, ok := callValue(w, f, v, lang)
			if !ok {
				continue
			}
			if lang == "en" {
				if s != "Unknown" {
					w.Violate(Violation{Monitor: "C18", Check: "a value outside the metric's range is named Unknown", Case: namesCase(f.Name, v, true, lang), Observed: s, Expected: "Unknown"})
				}
			} else {
				if *jaUnknown == "" {
					*jaUnknown = s
				}
				if s == "" || s != *jaUnknown {
					w.Violate(Violation{Monitor: "C18", Check: "a value outside the metric's range has the (single, non-empty) Japanese unknown name", Case: namesCase(f.Name, v, true, lang), Observed: s, Expected: *jaUnknown})
				}
				if _, clash := seen[s]; clash {
					w.Violate(Violation{Monitor: "C18", Check: "the unknown name differs from every defined value's name", Case: namesCase(f.Name, v, true, lang), Observed: s})
				}
			}
		}
	}
	// fallback: any other language gives exactly the English string
	probe := append(append([]int(nil), consts...), -1, 0, maxc+1, math.MaxInt)
	for _, v := range probe {
		en, ok := callValue(w, f, v, "en")
		if !ok {
			continue
		}
		for _, lang := range append(otherLangTags, "zero") {
			s, ok := callValue(w, f, v, lang)
			if ok && s != en {
				w.Violate(Violation{Monitor: "C18", Check: "a language that is neither English nor Japanese produces exactly the English name", Case: namesCase(f.Name, v, true, lang), Observed: s, Expected: en})
			}
		}
		for _, lang := range regionalTags {
			callValue(w, f, v, lang) // exercised (no panic), not judged
			w.Count("regional_variant_calls_(not_judged)")
		}
	}
}

func checkTitleFn(w *W, f *lib.TitleFn) {
	for _, lang := range []string{"en", "ja"} {
		s, ok := callTitle(w, f, lang)
		if ok && s == "" {
			w.Violate(Violation{Monitor: "C18", Check: "every title has a non-empty name", Case: namesCase(f.Name, 0, false, lang), Observed: s})
		}
		w.DistinctS("titles", f.Name+"/"+lang)
	}
	en, ok := callTitle(w, f, "en")
	if !ok {
		return
	}
	for _, lang := range append(otherLangTags, "zero") {
		s, ok := callTitle(w, f, lang)
		if ok && s != en {
			w.Violate(Violation{Monitor: "C18", Check: "a language that is neither English nor Japanese produces exactly the English title", Case: namesCase(f.Name, 0, false, lang), Observed: s, Expected: en})
		}
	}
	for _, lang := range regionalTags {
		callTitle(w, f, lang)
		w.Count("regional_variant_calls_(not_judged)")
	}
}

// checkModifiedNames: a Modified metric's value carries the same name as the base metric's value.
func checkModifiedNames(w *W) {
	byMetric := map[int]*lib.ValueFn{}
	for i := range lib.ValueFns {
		if lib.ValueFns[i].Metric >= 0 {
			byMetric[lib.ValueFns[i].Metric] = &lib.ValueFns[i]
		}
	}
	for mod, base := range spec.ModOf {
		fm, fb := byMetric[mod], byMetric[base]
		for ci := range spec.V3Metrics[base].Codes {
			for _, lang := range []string{"en", "ja", "fr"} {
				a, ok1 := callValue(w, fm, lib.C3[mod][ci+1], lang)
				b, ok2 := callValue(w, fb, lib.C3[base][ci], lang)
				if ok1 && ok2 && a != b {
					w.Violate(Violation{Monitor: "C18", Check: "a Modified metric's value carries the same name as the corresponding base metric value", Case: namesCase(fm.Name, lib.C3[mod][ci+1], true, lang), Observed: a, Expected: b})
				}
				w.Count("modified_vs_base_name_pairs")
			}
		}
	}
}

// unmonitoredNames parses the names package and lists exported functions missing from the registry.
func unmonitoredNames() (missing []string, parsed int, err error) {
	repo := os.Getenv("VERIF_REPO")
	if repo == "" {
		repo = "/repo"
	}
	files, _ := filepath.Glob(filepath.Join(repo, "v3/report/names/*.go"))
	known := map[string]bool{}
	for _, f := range lib.TitleFns {
		known[f.Name] = true
	}
	for _, f := range lib.ValueFns {
		known[f.Name] = true
	}
	fset := token.NewFileSet()
	for _, fn := range files {
		if strings.HasSuffix(fn, "_test.go") {
			continue
		}
		af, e := parser.ParseFile(fset, fn, nil, 0)
		if e != nil {
			return nil, parsed, e
		}
		for _, d := range af.Decls {
			if fd, ok := d.(*ast.FuncDecl); ok && fd.Recv == nil && fd.Name.IsExported() {
				parsed++
				if !known[fd.Name.Name] {
					missing = append(missing, fd.Name.Name)
				}
			}
		}
	}
	sort.Strings(missing)
	return
}

// c18AllChecks runs the whole exhaustive check set once, starting at function offset off.
func c18AllChecks(w *W, off int) string {
	var jaUnknown string
	nv, nt := len(lib.ValueFns), len(lib.TitleFns)
	for i := 0; i < nv; i++ {
		checkValueFn(w, &lib.ValueFns[(i+off)%nv], &jaUnknown)
	}
	for i := 0; i < nt; i++ {
		checkTitleFn(w, &lib.TitleFns[(i+off)%nt])
	}
	checkModifiedNames(w)
	return jaUnknown
}

// c18child <mode>: a fresh process that first touches the tables in a mode-specific order (so that a
// first-use effect is provoked by something other than a plain English/Japanese lookup), then runs all checks.
func init() {
	internals["c18child"] = func(args []string, seed int64, dir string) int {
		r := NewRun("C18", "quick", seed, dir)
		r.Child = true
		w := r.NewW()
		var warm []string
		switch args[0] {
		case "regional-first":
			warm = regionalTags
		case "other-first":
			warm = otherLangTags
		case "japanese-variants-first":
			warm = []string{"ja-US", "ja-DE", "ja-u-ca-japanese", "ja-Latn", "en-GB", "en-JP"}
		case "fresh":
			// a light child: only the fallback of every function for a few tags (run many times: a table or matcher
			// whose shape depends on per-process map iteration order shows in some processes only)
			for _, lang := range []string{"zh", "ko", "ru", "ar", "hi", "th", "el", "he", "mul", "fr", "und", "zero"} {
				for i := range lib.TitleFns {
					en, _ := callTitle(w, &lib.TitleFns[i], "en")
					if s, ok := callTitle(w, &lib.TitleFns[i], lang); ok && s != en {
						w.Violate(Violation{Monitor: "C18", Check: "a language that is neither English nor Japanese produces exactly the English title (fresh process)", Case: namesCase(lib.TitleFns[i].Name, 0, false, lang), Observed: s, Expected: en})
					}
				}
				for i := range lib.ValueFns {
					for v := 0; v <= 3; v++ {
						en, _ := callValue(w, &lib.ValueFns[i], v, "en")
						if s, ok := callValue(w, &lib.ValueFns[i], v, lang); ok && s != en {
							w.Violate(Violation{Monitor: "C18", Check: "a language that is neither English nor Japanese produces exactly the English name (fresh process)", Case: namesCase(lib.ValueFns[i].Name, v, true, lang), Observed: s, Expected: en})
						}
					}
				}
			}
			w.Merge()
			fmt.Println("evaluations", r.evals.Load())
			return 0
		case "reverse":
			warm = append(append([]string{}, otherLangTags...), regionalTags...)
			for i, j := 0, len(warm)-1; i < j; i, j = i+1, j-1 {
				warm[i], warm[j] = warm[j], warm[i]
			}
		}
		for _, lang := range warm {
			for i := range lib.TitleFns {
				callTitle(w, &lib.TitleFns[i], lang)
			}
			for i := range lib.ValueFns {
				for v := -1; v <= 6; v++ {
					callValue(w, &lib.ValueFns[i], v, lang)
				}
			}
		}
		c18AllChecks(w, len(args[0]))
		w.Merge()
		fmt.Println("evaluations", r.evals.Load())
		return 0
	}
}

func runC18(r *Run) int {
	r.CleanOut()
	// (1) in this process: the whole check set from 8 goroutines at once, each starting at another function
	var jaUnknown string
	var wg sync.WaitGroup
	var mu sync.Mutex
	for g := 0; g < 8; g++ {
		wg.Add(1)
		go func(g int) {
			defer wg.Done()
			w := r.NewW()
			ja := c18AllChecks(w, g*7)
			mu.Lock()
			jaUnknown = ja
			mu.Unlock()
			if g == 0 {
				w.Sample(map[string]interface{}{"function": "AVValueOf", "value": "AttackVectorNetwork", "en": lib.ValueFns[0].F(lib.C3[spec.AV][0], language.English), "ja": lib.ValueFns[0].F(lib.C3[spec.AV][0], language.Japanese), "fr": lib.ValueFns[0].F(lib.C3[spec.AV][0], language.French)})
				w.Sample(map[string]interface{}{"function": "MPRValueOf", "value": 99, "en": lib.ValueFns[16].F(99, language.English), "ja": lib.ValueFns[16].F(99, language.Japanese)})
			}
			w.Merge()
		}(g)
	}
	wg.Wait()
	// (2) fresh child processes whose first lookups are something else than plain English / Japanese, one of them
	// started under a Japanese POSIX locale (the statement has no exception for the process environment)
	modes := []string{"regional-first", "other-first", "japanese-variants-first", "reverse", "reverse@ja_JP-locale", "other-first@ja_JP-locale"}
	nFresh := r.Pick(40, 200)
	for i := 0; i < nFresh; i++ {
		modes = append(modes, "fresh")
	}
	for _, m := range modes {
		mode, loc, _ := strings.Cut(m, "@")
		if loc != "" {
			os.Setenv("LC_ALL", "ja_JP.UTF-8")
			os.Setenv("LC_MESSAGES", "ja_JP.UTF-8")
			os.Setenv("LANG", "ja_JP.UTF-8")
			os.Setenv("LANGUAGE", "ja")
		}
		rest, err := r.RunChildChecks("first lookups: "+m, "c18child", mode)
		if loc != "" {
			for _, e := range []string{"LC_ALL", "LC_MESSAGES", "LANG", "LANGUAGE"} {
				os.Unsetenv(e)
			}
		}
		if err != nil {
			r.Inconclusive("child process %s failed: %v %v", m, err, rest)
			continue
		}
		for _, l := range rest {
			var n int64
			if _, e := fmt.Sscanf(l, "evaluations %d", &n); e == nil {
				r.AddEvals(n)
			}
		}
	}
	r.Extra("child_processes", map[string]interface{}{"with_other_first_lookups": modes[:6], "light_fresh_processes": nFresh})
	missing, parsed, err := unmonitoredNames()
	r.Extra("registry", map[string]interface{}{"title_functions": len(lib.TitleFns), "value_functions": len(lib.ValueFns), "exported_functions_found_by_go/parser": parsed, "unmonitored_exported_functions": missing, "parse_error": fmt.Sprint(err)})
	if len(missing) > 0 {
		r.Note("exported names functions not in the registry (unmonitored, not a verdict): %v", missing)
	}
	r.Extra("japanese_unknown_name", jaUnknown)
	r.Extra("other_language_tags", otherLangTags)
	r.Extra("regional_variant_tags_exercised_not_judged", regionalTags)
	return r.Finish("exhaustive: the 52 names functions (26 titles, 3 column headers, 23 value-name functions) x every enumeration integer -700..700, around +-2^8/2^15/2^16/2^24/2^31/2^32, MinInt/MaxInt x {English, Japanese} + fallback of every function/value over 45 tags whose language is neither English nor Japanese (incl. und, und-JP, und-Jpan, the zero Tag, enm, jam, jv); Modified value names vs base value names for every code; the whole set is run by 8 goroutines at once in this process and once in each of 6 fresh child processes whose first lookups are regional variants / other languages / Japanese variants / reversed order (two of them under a ja_JP POSIX locale), and the English fallback in 40 (quick) / 200 (thorough) further fresh processes; distinct non-trivial = distinct (function, defined value or title, language) triples",
		true, int64(r.SetSize("value_names")+r.SetSize("titles")), 5000, 200, TrustedBase)
}

func replayC18(r *Run, c Case) {
	w := r.NewW()
	defer w.Merge()
	var ja string
	for i := range lib.ValueFns {
		if lib.ValueFns[i].Name == c.Kind {
			checkValueFn(w, &lib.ValueFns[i], &ja)
		}
	}
	for i := range lib.TitleFns {
		if lib.TitleFns[i].Name == c.Kind {
			checkTitleFn(w, &lib.TitleFns[i])
		}
	}
	checkModifiedNames(w)
}
