package mon

import (
	"bytes"
	"encoding/json"
	"fmt"
	"os"
	"os/exec"
	"path/filepath"
	"runtime/debug"
	"strings"
	"sync/atomic"

	"verif/harness/lib"
	"verif/harness/spec"
)

func init() {
	register(&Monitor{ID: "C12", Title: "no input or receiver state makes the library panic or fabricate a result", Run: runC12, Replay: replayC12})
}

// sweep runs every observer method on o and reports panics.  mustBeInvalid:
// the statement requires GetError != nil, Encode error != nil and Score == 0.
func sweep(w *W, o lib.Obj, c Case, state string, mustBeInvalid bool) {
	w.Eval(1)
	c.Args = map[string]string{"state": state}
	viol := func(check string, obs interface{}, note string) {
		w.Violate(Violation{Monitor: "C12", Check: check, Case: c, Observed: obs, Note: note})
	}
	pan := func(op string, p *lib.Panic) bool {
		if p != nil {
			viol("observer "+op+" does not panic on "+state, p.Value, clip(p.Stack, 1500))
			return true
		}
		return false
	}
	score, p := o.Score()
	pan("Score", p)
	_, _, p = o.Severity()
	pan("Severity", p)
	gerr, p := o.GetError()
	gp := pan("GetError", p)
	_, eerr, p := o.Encode()
	ep := pan("Encode", p)
	_, p = o.String()
	pan("String", p)
	if _, ok, p := o.IsEmpty(); ok || p != nil {
		pan("IsEmpty", p)
	}
	if bv, ok, p := o.BaseView(); ok || p != nil {
		if !pan("BaseMetrics", p) && !bv.IsNil() {
			_, p = bv.Score()
			pan("BaseMetrics().Score", p)
			_, _, p = bv.Encode()
			pan("BaseMetrics().Encode", p)
		}
	}
	if tv, ok, p := o.TemporalView(); ok || p != nil {
		if !pan("TemporalMetrics", p) && !tv.IsNil() {
			_, p = tv.Score()
			pan("TemporalMetrics().Score", p)
			_, _, p = tv.Encode()
			pan("TemporalMetrics().Encode", p)
			if _, ok, p := tv.IsEmpty(); ok || p != nil {
				pan("TemporalMetrics().IsEmpty", p)
			}
		}
	}
	if mustBeInvalid {
		if !gp && gerr == nil {
			viol("GetError reports an error on "+state, "nil", "")
		}
		if !ep && eerr == nil {
			viol("Encode reports an error on "+state, "nil", "")
		}
		if score != 0 {
			viol("Score is 0 on "+state, score, "")
		}
	}
}

// invalidByFields reports whether the exported fields say the object must be
// invalid at its level: version unknown (v3), a base metric unknown, or (v3) a
// temporal/environmental metric invalid, or (v2) a metric of a present group
// invalid.
func invalidByFields(o lib.Obj) bool {
	if o.IsNil() {
		return true
	}
	if !o.Kind.V2() {
		if v, ok := o.Ver(); !ok || v == lib.VerUnknown3 {
			return true
		}
		for i := 0; i < o.NFields(); i++ {
			v, ok := o.Field(i)
			if !ok || v == lib.U3[i] {
				return true
			}
		}
		return false
	}
	for i := 0; i < spec.V2E; i++ {
		v, ok := o.Field(i)
		if !ok || v == lib.U2[i] {
			return true
		}
	}
	grp := func(view lib.Obj, lo, hi int) bool {
		empty, ok, p := view.IsEmpty()
		if !ok || p != nil || empty {
			return false
		}
		for i := lo; i < hi; i++ {
			if v, ok := o.Field(i); ok && v == lib.U2[i] {
				return true
			}
		}
		return false
	}
	switch o.Kind {
	case lib.K2T:
		return grp(o, spec.V2E, spec.V2CDP)
	case lib.K2E:
		tv, _, _ := o.TemporalView()
		return grp(tv, spec.V2E, spec.V2CDP) || grp(o, spec.V2CDP, spec.N2)
	}
	return false
}

// decodeShape checks one Decode call for panic and pair shape; returns the receiver left behind.
func decodeShape(w *W, k lib.Kind, s string, nilRecv bool, recv lib.Obj, reuse bool) (lib.Obj, error) {
	w.Eval(1)
	var o lib.Obj
	var err error
	var pan *lib.Panic
	if reuse {
		o, err, pan = lib.DecodeOn(recv, s)
	} else if nilRecv {
		o, err, pan = lib.DecodeOn(lib.NilObj(k), s)
	} else {
		o, err, pan = lib.DecodeOn(recv, s)
	}
	c := decodeCase(k, s, nilRecv)
	if reuse {
		c.Args = map[string]string{"reused_decoder": "1"}
	}
	if pan != nil {
		w.Violate(Violation{Monitor: "C12", Check: "Decode does not panic", Case: c, Observed: pan.Value, Note: clip(pan.Stack, 1500)})
		return o, err
	}
	if err == nil && o.IsNil() {
		w.Violate(Violation{Monitor: "C12", Check: "Decode returns an object or an error, never neither", Case: c, Observed: "(nil, nil)"})
	}
	if err != nil && !o.IsNil() {
		w.Violate(Violation{Monitor: "C12", Check: "Decode returns an object or an error, never both", Case: c, Observed: "(object, " + lib.ErrClass(err) + ")"})
	}
	return o, err
}

// decodeShapeMode is decodeShape for the further receiver modes (embedded decoder, nil receiver after a
// rejected nil decode), and judges "usable object" on an accepted vector: it reports no error and encodes.
func decodeShapeMode(w *W, k lib.Kind, s string, mode int) {
	w.Eval(1)
	o, recv, err, pan := lib.DecodeMode(k, s, mode)
	c := decodeCaseMode(k, s, mode)
	if pan != nil {
		w.Violate(Violation{Monitor: "C12", Check: "Decode does not panic", Case: c, Observed: pan.Value, Note: clip(pan.Stack, 1500)})
		return
	}
	if err == nil && o.IsNil() {
		w.Violate(Violation{Monitor: "C12", Check: "Decode returns an object or an error, never neither", Case: c, Observed: "(nil, nil)"})
		return
	}
	if err != nil && !o.IsNil() {
		w.Violate(Violation{Monitor: "C12", Check: "Decode returns an object or an error, never both", Case: c, Observed: "(object, " + lib.ErrClass(err) + ")"})
	}
	if err != nil {
		if !recv.IsNil() && Hash(s)%4 == 1 {
			x := recv.Observe()
			if x.Pan != nil {
				w.Violate(Violation{Monitor: "C12", Check: "queries on the decoder object left behind by a failed decode do not panic", Case: c, Observed: x.PanOp + ": " + x.Pan.Value, Note: clip(x.Pan.Stack, 1500)})
			}
		}
		return
	}
	x := o.Observe()
	switch {
	case x.Pan != nil:
		w.Violate(Violation{Monitor: "C12", Check: "queries on a decoded object do not panic", Case: c, Observed: x.PanOp + ": " + x.Pan.Value, Note: clip(x.Pan.Stack, 1500)})
	case x.Err != nil || x.EncErr != nil:
		w.Violate(Violation{Monitor: "C12", Check: "an object returned without error is usable (reports no error, encodes)", Case: c,
			Observed: fmt.Sprintf("GetError=%s Encode error=%s", lib.ErrClass(x.Err), lib.ErrClass(x.EncErr))})
	}
	w.Count("decodes_through_receiver_mode:" + lib.ModeNames[mode])
}

var hostileShort = []string{"", ":", "/", "::", "//", ":/", "/:", "CVSS:", "CVSS:/", "CVSS:3.1", "CVSS:3.1/", "CVSS:3.1//", "CVSS:3.1/:", "CVSS:3.1/:/", "CVSS:3.1/AV", "CVSS:3.1/AV:",
	"\x00", "CVSS:3.1/\x00", "CVSS:3.1/AV:\x00", "\xff\xfe", "CVSS:3.1/AV:\xff", "CVSS:3.1/\xc3\x28:N", "AV:", "AV", ":N", "AV:N", "AV:N/", "AV:N/AC:L/Au:N/C:P/I:P/A:P/",
	"AV:N/AC:L/Au:N/C:P/I:P/A:P/E", "AV:N/AC:L/Au:N/C:P/I:P/A:P/E:", "AV:N/AC:L/Au:N/C:P/I:P/A:P/CDP:", " ", "\n", "\t", "CVSS:3.1/AV:N/AC:L/PR:N/UI:N/S:U/C:H/I:H/A:H/\x00",
	"CVSS:3.1/AV:N/AC:L/PR:N/UI:N/S:U/C:H/I:H/A:H/E:", "CVSS:3.1/AV:N/AC:L/PR:N/UI:N/S:U/C:H/I:H/A:H/MAV:", "CVSS:3.1/AV:N/AC:L/PR:N/UI:N/S:U/C:H/I:H/A:H/:X"}

func runC12(r *Run) int {
	r.CleanOut()
	distinct := newHashBits()
	var leftBehind, reused atomic.Int64
	// A. the C07/C08 string workloads at all six decoders
	for _, v2 := range []bool{false, true} {
		v2 := v2
		visit := func(w *W, s string, m *strMeta) {
			distinct.add(s)
			h := Hash(s)
			for level := 0; level < 3; level++ {
				k := kindOf(v2, level)
				mode := int((h >> uint(8*level)) % 3)
				nilRecv := mode == lib.RecvNil
				recv := lib.New(k)
				if mode == lib.RecvQueried { // constructor result whose queries were called before Decode
					recv.Observe()
					if bv, ok, _ := recv.BaseView(); ok && !bv.IsNil() {
						bv.Observe()
					}
					recv.IsEmpty()
				}
				_, err := decodeShape(w, k, s, nilRecv, recv, false)
				// object left behind by a failed decode (every 4th string): observers must not panic;
				// where its exported fields hold an unknown value of the level it must be invalid
				if err != nil && !nilRecv && h%4 == 0 {
					leftBehind.Add(1)
					sweep(w, recv, decodeCase(k, s, false), "the decoder object left behind by a failed decode", invalidByFields(recv))
					if h%16 == 0 { // second Decode on a used decoder: only no panic and the pair shape
						reused.Add(1)
						decodeShape(w, k, s, false, recv, true)
					}
				}
			}
			// one more decoder per string through a further receiver mode
			decodeShapeMode(w, kindOf(v2, int(h>>29)%3), s, lib.RecvEmbedded+int(h>>33)%2)
			if h%400009 == 0 {
				w.Sample(map[string]interface{}{"string": clip(s, 120), "generator": m.Src})
			}
		}
		stringWorkload(r, v2, visit)
	}
	// B. hostile inputs to all six decoders through both receivers
	hostile := append([]string(nil), hostileShort...)
	hostile = append(hostile, hostileLong(false, r.Pick(1, 8))...)
	hostile = append(hostile, hostileLong(true, r.Pick(1, 8))...)
	rep := strings.Repeat
	hostile = append(hostile, "CVSS:3.1/"+rep("\x00", 1<<20), rep("\xff", 1<<20), "CVSS:3.1"+rep("/", 1<<20), rep(":", 1<<20), "CVSS:3.1/AV:N"+rep(":N", 1<<19),
		"CVSS:3.1/"+rep("E:X/", 1<<18)+"AV:N/AC:L/PR:N/UI:N/S:U/C:H/I:H/A:H")
	r.Parallel(len(hostile)*6*2, 1, func(w *W, i int) {
		s := hostile[i/12]
		k := lib.Kind(i / 2 % 6)
		nilRecv := i%2 == 1
		recv := lib.New(k)
		_, err := decodeShape(w, k, s, nilRecv, recv, false)
		w.Count("hostile_inputs_decoded")
		if err != nil && !nilRecv {
			sweep(w, recv, decodeCase(k, clip(s, 200), false), "the decoder object left behind by a failed decode", invalidByFields(recv))
		}
	})
	r.Phase("hostile inputs")
	// B'. the long inputs once more in a child process whose goroutine stacks are limited to 16 MiB: a decoder
	// whose stack depth grows with the number of elements (or characters) of its input dies there with a fatal,
	// unrecoverable stack overflow long before the default 1 GB limit is reached.
	c12SmallStackChild(r)
	r.Phase("long inputs under a small stack limit (child process)")
	// C. observer sweep on nil receivers and fresh constructor results
	w := r.NewW()
	for k := lib.Kind(0); k < lib.NKinds; k++ {
		sweep(w, lib.NilObj(k), Case{Type: "receiver", Kind: k.String()}, "a nil receiver", true)
		sweep(w, lib.New(k), Case{Type: "receiver", Kind: k.String()}, "a freshly constructed object", true)
		w.Count("nil_and_fresh_objects_swept")
		w.CountN("nil_and_fresh_objects_swept", 1)
	}
	w.Merge()
	// D. failure after 0..n tokens at each level: truncations and one bad token at each position
	r.Parallel(r.Pick(300, 3000), 1, func(w *W, i int) {
		rng := r.Rng(uint64(i) + 1<<35)
		v2 := i%2 == 1
		L := rng.IntN(3)
		var toks []string
		prefix := ""
		if v2 {
			v := seed2(rng, L)
			toks = strings.Split(v.String(), "/")
		} else {
			v := seed3(rng, L)
			toks = toks3(&v, L, rng, rng.IntN(2) == 0)
			prefix = "CVSS:" + spec.V3Versions[v.Ver]
		}
		mk := func(t []string) string {
			if v2 {
				return strings.Join(t, "/")
			}
			return join3(prefix, t)
		}
		for cut := 0; cut <= len(toks); cut++ {
			for _, bad := range []string{"", "ZZ", "AV:Z", "E:Z", "CDP:Z", "MAV:Z", "AV:N", "XX:Y"} {
				t := append(append([]string(nil), toks[:cut]...), bad)
				s := mk(t)
				for level := 0; level < 3; level++ {
					k := kindOf(v2, level)
					recv := lib.New(k)
					_, err := decodeShape(w, k, s, false, recv, false)
					if err != nil {
						leftBehind.Add(1)
						sweep(w, recv, decodeCase(k, s, false), "the decoder object left behind by a failed decode", invalidByFields(recv))
					}
				}
			}
		}
	})
	r.Phase("truncation sweep")
	// E. decoded objects with exactly one exported field reset to its unknown/invalid value
	var resets atomic.Int64
	r.Parallel(r.Pick(400, 6000), 1, func(w *W, i int) {
		rng := r.Rng(uint64(i) + 1<<36)
		v2 := i%2 == 1
		for level := 0; level < 3; level++ {
			k := kindOf(v2, level)
			var s string
			hasT, hasE := false, false
			if v2 {
				v := seed2(rng, level)
				s = v.String()
				hasT, hasE = v.HasT, v.HasE
			} else {
				v := seed3(rng, level)
				s = join3("CVSS:"+spec.V3Versions[v.Ver], toks3(&v, level, rng, true))
			}
			nf := spec.V3LevelEnd(level)
			if v2 {
				nf = spec.V2LevelEnd(level)
			}
			for f := -1; f < nf; f++ {
				if f == -1 && v2 {
					continue
				}
				o, err, _ := lib.Decode(k, s, false)
				if err != nil || o.IsNil() {
					w.Count("valid_vector_not_decoded")
					continue
				}
				// queries before the reset (a memoised result would survive the reset)
				before := o.Observe()
				if before.Pan != nil {
					w.Violate(Violation{Monitor: "C12", Check: "observer does not panic on a decoded object", Case: decodeCase(k, s, false), Observed: before.Pan.Value})
				}
				must := true
				name := "Ver"
				if f == -1 {
					o.SetVer(lib.VerUnknown3)
				} else if v2 {
					name = spec.V2Metrics[f].Name
					o.SetField(f, lib.U2[f])
					// a v2 group metric only counts when its group is present - known from the vector that
					// was decoded, not from the library's own IsEmpty()
					if f >= spec.V2CDP {
						must = hasE
					} else if f >= spec.V2E {
						must = hasT
					}
				} else {
					name = spec.V3Metrics[f].Name
					o.SetField(f, lib.U3[f])
				}
				resets.Add(1)
				c := decodeCase(k, s, false)
				sweep(w, o, c, "a decoded object whose exported field "+name+" was reset to its unknown/invalid value", must)
				// the lower views of a higher-level object with a reset lower-level field must be invalid too
				if must {
					if bv, ok, _ := o.BaseView(); ok && !bv.IsNil() && o.Kind != bv.Kind {
						inBase := f < spec.E
						if v2 {
							inBase = f < spec.V2E
						}
						if inBase {
							sweep(w, bv, c, "the BaseMetrics() view of an object whose base field "+name+" was reset", true)
						}
					}
					if tv, ok, _ := o.TemporalView(); ok && !tv.IsNil() {
						inT := f < spec.CR
						if v2 {
							inT = f < spec.V2CDP
						}
						if inT {
							sweep(w, tv, c, "the TemporalMetrics() view of an object whose field "+name+" was reset", true)
						}
					}
				}
			}
		}
	})
	// E2. several fields reset at once: a whole group, all base metrics, random pairs and triples
	r.Parallel(r.Pick(400, 4000), 1, func(w *W, i int) {
		rng := r.Rng(uint64(i) + 1<<38)
		v2 := i%2 == 1
		level := 1 + rng.IntN(2)
		k := kindOf(v2, level)
		var s string
		hasT, hasE := true, true
		if v2 {
			v := seed2(rng, level)
			s = v.String()
			hasT, hasE = v.HasT, v.HasE
		} else {
			v := seed3(rng, level)
			s = join3("CVSS:"+spec.V3Versions[v.Ver], toks3(&v, level, rng, true))
		}
		nf := lib.New(k).NFields()
		ends := []int{spec.E, spec.CR, spec.N3}
		if v2 {
			ends = []int{spec.V2E, spec.V2CDP, spec.N2}
		}
		sets := [][]int{}
		lo := 0
		for _, hi := range ends {
			if hi <= nf {
				var g []int
				for f := lo; f < hi; f++ {
					g = append(g, f)
				}
				sets = append(sets, g)
			}
			lo = hi
		}
		for t := 0; t < 4; t++ { // random pairs / triples
			var g []int
			for len(g) < 2+t%2 {
				g = append(g, rng.IntN(nf))
			}
			sets = append(sets, g)
		}
		for _, g := range sets {
			o, err, _ := lib.Decode(k, s, false)
			if err != nil || o.IsNil() {
				continue
			}
			o.Observe()
			must := false
			for _, f := range g {
				if v2 {
					o.SetField(f, lib.U2[f])
					must = must || f < spec.V2E || (f < spec.V2CDP && hasT) || (f >= spec.V2CDP && hasE)
				} else {
					o.SetField(f, lib.U3[f])
					must = true
				}
			}
			resets.Add(1)
			sweep(w, o, decodeCase(k, s, false), fmt.Sprintf("a decoded object whose exported fields %v were all reset to their unknown/invalid values", g), must)
		}
	})
	// F. exported fields holding integers outside the enumeration: observers must not panic (results not judged)
	r.Parallel(r.Pick(200, 2000), 1, func(w *W, i int) {
		rng := r.Rng(uint64(i) + 1<<37)
		v2 := i%2 == 1
		level := rng.IntN(3)
		k := kindOf(v2, level)
		var s string
		if v2 {
			v := seed2(rng, level)
			s = v.String()
		} else {
			v := seed3(rng, level)
			s = join3("CVSS:"+spec.V3Versions[v.Ver], toks3(&v, level, rng, true))
		}
		for f := -1; f < lib.New(k).NFields(); f++ {
			for _, val := range []int{-1, 7, 99, 1 << 40, -1 << 62} {
				o, err, _ := lib.Decode(k, s, false)
				if err != nil || o.IsNil() {
					continue
				}
				if f == -1 {
					if v2 {
						continue
					}
					o.SetVer(val)
				} else {
					o.SetField(f, val)
				}
				w.Count("out_of_range_field_values_swept")
				sweep(w, o, decodeCase(k, s, false), fmt.Sprintf("a decoded object whose exported field #%d holds the out-of-range integer %d", f, val), false)
			}
		}
	})
	r.Phase("field reset sweep")
	r.Extra("objects_left_behind_by_failed_decodes_swept", leftBehind.Load())
	r.Extra("second_decodes_on_a_used_decoder", reused.Load())
	r.Extra("single_field_resets_swept", resets.Load())
	r.Extra("hostile_inputs", len(hostile))
	r.Note("out of scope on purpose: objects built by struct literal with nil embedded pointers, embedded pointers reset to nil, report.New*(nil)")
	return r.Finish("all strings of the C07/C08 workloads plus hostile inputs (empty, lone separators, NUL bytes, invalid UTF-8, 1-8 MB inputs of repeated tokens/colons/slashes) at all six decoders through constructor and nil receiver; observer sweep (Score, Severity, GetError, Encode, String, BaseMetrics, TemporalMetrics, v2 IsEmpty) on typed nil receivers, fresh constructor results, decoder objects left behind by failed decodes (failure after 0..n tokens at each level), and decoded objects with each exported field (all 23 v3 / 14 v2) reset to its unknown/invalid constant, queried before and after the reset; distinct non-trivial = distinct workload strings (30-bit hash bitmap, conservative)",
		false, distinct.count(), 1000000, 200000, TrustedBase)
}

func replayC12(r *Run, c Case) {
	w := r.NewW()
	defer w.Merge()
	if c.Type == "long-input" {
		c12SmallStackChild(r)
		return
	}
	k := kindByName(c.Kind)
	if c.Type == "receiver" {
		sweep(w, lib.NilObj(k), c, "a nil receiver", true)
		sweep(w, lib.New(k), c, "a freshly constructed object", true)
		return
	}
	s := c.GetInput()
	if m := caseMode(c); m >= lib.RecvEmbedded {
		decodeShapeMode(w, k, s, m)
		return
	}
	recv := lib.New(k)
	o, err := decodeShape(w, k, s, c.NilRcv, recv, false)
	fmt.Printf("replay %s %q: object nil=%v err=%s\n", c.Kind, clip(s, 200), o.IsNil(), lib.ErrClass(err))
	if err != nil {
		sweep(w, recv, c, "the decoder object left behind by a failed decode", invalidByFields(recv))
		if !c.NilRcv {
			// a second Decode on the used decoder: no panic, pair shape
			decodeShape(w, k, s, false, recv, true)
			valid := "CVSS:3.1/AV:N/AC:L/PR:N/UI:N/S:U/C:H/I:H/A:H"
			if k.V2() {
				valid = "AV:N/AC:L/Au:N/C:P/I:P/A:P"
			}
			r2 := lib.New(k)
			lib.DecodeOn(r2, s)
			decodeShape(w, k, valid, false, r2, true)
		}
		return
	}
	// successful decode: replay the reset sweep for every field
	nf := o.NFields()
	for f := -1; f < nf; f++ {
		if f == -1 && k.V2() {
			continue
		}
		o, _, _ := lib.Decode(k, s, false)
		o.Observe()
		must := true
		if f == -1 {
			o.SetVer(lib.VerUnknown3)
		} else if k.V2() {
			o.SetField(f, lib.U2[f])
			if f >= spec.V2E {
				view := o
				if f < spec.V2CDP && k == lib.K2E {
					view, _, _ = o.TemporalView()
				}
				empty, ok, _ := view.IsEmpty()
				must = ok && !empty
			}
		} else {
			o.SetField(f, lib.U3[f])
		}
		sweep(w, o, c, fmt.Sprintf("a decoded object whose exported field #%d was reset", f), must)
	}
}

// c12child: decodes the long hostile inputs at all six decoders under debug.SetMaxStack(16 MiB).  Every
// decode is announced on stdout before it starts, so that the parent can name the input a fatal error struck.
func init() {
	internals["c12child"] = func(args []string, seed int64, dir string) int {
		debug.SetMaxStack(16 << 20)
		r := NewRun("C12", "quick", seed, dir)
		r.Child = true
		w := r.NewW()
		n := 0
		for _, v2 := range []bool{false, true} {
			for hi, s := range c12LongInputs(v2) {
				for level := 0; level < 3; level++ {
					k := kindOf(v2, level)
					if (hi+level)%2 == 0 || level == 2 {
						fmt.Printf("DECODING %s input#%d len=%d head=%q\n", k, hi, len(s), clip(s, 60))
						recv := lib.New(k)
						decodeShape(w, k, s, (hi+level)%3 == 0, recv, false)
						n++
					}
				}
			}
		}
		w.Merge()
		fmt.Printf("CHILD-DONE evaluations=%d\n", n)
		return 0
	}
}

func c12LongInputs(v2 bool) []string {
	rep := strings.Repeat
	in := hostileLong(v2, 1)
	p, valid := "CVSS:3.1/", "AV:N/AC:L/PR:N/UI:N/S:U/C:H/I:H/A:H"
	if v2 {
		p, valid = "", "AV:N/AC:L/Au:N/C:P/I:P/A:P"
	}
	return append(in, p+valid+rep("/X:1", 300000), p+rep("X:1/", 300000)+valid, p+valid+"/"+rep("Q", 1<<20)+":1", p+valid+"/X:"+rep("1", 1<<20), p+valid+rep("/é:é", 200000),
		p+rep(":", 1<<20), p+valid+rep("\x00", 1<<20), rep("/", 1<<20))
}

func c12SmallStackChild(r *Run) {
	if r.Child {
		return
	}
	cmd := exec.Command(childBinary(), "c12child")
	cmd.Env = os.Environ()
	var stderr bytes.Buffer
	cmd.Stderr = &stderr
	out, err := cmd.Output()
	last, done := "", false
	for _, line := range strings.Split(string(out), "\n") {
		switch {
		case strings.HasPrefix(line, "CHILD-VIOLATION "):
			var v Violation
			if json.Unmarshal([]byte(line[len("CHILD-VIOLATION "):]), &v) == nil {
				if v.Case.Args == nil {
					v.Case.Args = map[string]string{}
				}
				v.Case.Args["child_process"] = "goroutine stacks limited to 16 MiB"
				r.Violate(v)
			}
		case strings.HasPrefix(line, "DECODING "):
			last = line
		case strings.HasPrefix(line, "CHILD-DONE"):
			done = true
			var n int64
			fmt.Sscanf(line, "CHILD-DONE evaluations=%d", &n)
			r.AddEvals(n)
			r.Count("long_inputs_decoded_under_a_16MiB_stack_limit", n)
		}
	}
	if err == nil && done {
		return
	}
	es := stderr.String()
	if strings.Contains(es, "stack overflow") || strings.Contains(es, "stack exceeds") {
		os.WriteFile(filepath.Join(r.OutDir, "crash-small-stack.log"), []byte(clip(es, 20000)), 0o644)
		c := Case{Type: "long-input", Args: map[string]string{"child_process": "goroutine stacks limited to 16 MiB (debug.SetMaxStack)", "last_announced": last}}
		r.Violate(Violation{Monitor: "C12", Check: "Decode returns for any length of input: its stack depth does not grow with the input (fatal stack overflow under a 16 MiB stack limit)", Case: c,
			Observed: clip(es, 400), Note: "re-run: mon c12child"})
		return
	}
	r.Inconclusive("small-stack child did not complete: %v; last: %s; stderr: %s", err, last, clip(es, 400))
}
