// Package mon holds the runtime monitors (one per property), their workloads
// and the evidence / replay writers.
package mon

import (
	"encoding/base64"
	"encoding/json"
	"fmt"
	"hash/fnv"
	"math/rand/v2"
	"os"
	"os/exec"
	"path/filepath"
	"runtime"
	"sort"
	"strings"
	"sync"
	"sync/atomic"
	"time"
	"unicode/utf8"
)

// Case is a replayable case: everything needed to re-execute one check
// against the current tree.
type Case struct {
	Type   string            `json:"type"`            // decode | v3struct | ops | template | names | code | table | concurrent
	Kind   string            `json:"kind,omitempty"`  // decoder kind
	Input  string            `json:"input,omitempty"` // vector / template (base64 when not UTF-8)
	B64    bool              `json:"b64,omitempty"`   // Input is base64
	NilRcv bool              `json:"nil_receiver,omitempty"`
	Args   map[string]string `json:"args,omitempty"`
}

// SetInput stores s, base64-encoding it when it is not valid UTF-8.
func (c *Case) SetInput(s string) {
	if utf8.ValidString(s) {
		c.Input, c.B64 = s, false
	} else {
		c.Input, c.B64 = base64.StdEncoding.EncodeToString([]byte(s)), true
	}
}

// GetInput returns the original input.
func (c *Case) GetInput() string {
	if c.B64 {
		b, _ := base64.StdEncoding.DecodeString(c.Input)
		return string(b)
	}
	return c.Input
}

// Violation is one refuting observation.
type Violation struct {
	Property string      `json:"property"`
	Monitor  string      `json:"monitor"`
	Check    string      `json:"check"` // which assertion of the monitor
	Case     Case        `json:"case"`
	Observed interface{} `json:"observed"`
	Expected interface{} `json:"expected"`
	Note     string      `json:"note,omitempty"`
	Seed     int64       `json:"seed"`
}

// Run is the state of one check run.
type Run struct {
	ID        string
	Tier      string
	Seed      int64
	Start     time.Time
	OutDir    string
	EvDir     string
	Replay    bool // replay mode: no evidence, verbose
	MiniRange int  // index-range bound of one Parallel phase in a compact re-run
	Mini      bool // compact re-run inside a child process (ProcsChildren): sizes cut down, large index ranges subsampled, no evidence file
	miniSeq   atomic.Int64
	Child     bool // child-process mode: violations are printed as CHILD-VIOLATION json lines for the parent
	Workers   int

	mu        sync.Mutex
	evals     atomic.Int64
	counters  map[string]int64
	sets      map[string]map[uint64]struct{}
	samples   []interface{}
	sampleCap int
	viols     []Violation
	nviol     atomic.Int64
	known     map[string]int64 // known-finding id -> hits
	knownMsg  map[string]string
	extra     map[string]interface{}
	notes     []string
	inconcl   []string
	lastPhase time.Time
}

// NewRun creates the run state.
func NewRun(id, tier string, seed int64, verifDir string) *Run {
	r := &Run{ID: id, Tier: tier, Seed: seed, Start: time.Now(),
		OutDir:   filepath.Join(verifDir, "out", id),
		EvDir:    filepath.Join(verifDir, "evidence"),
		counters: map[string]int64{}, sets: map[string]map[uint64]struct{}{},
		known: map[string]int64{}, knownMsg: map[string]string{}, extra: map[string]interface{}{},
		sampleCap: 12, Workers: runtime.NumCPU()}
	os.MkdirAll(r.OutDir, 0o755)
	os.MkdirAll(r.EvDir, 0o755)
	return r
}

// Thorough reports the tier.
func (r *Run) Thorough() bool { return r.Tier == "thorough" }

// Pick returns q in the quick tier and t in the thorough tier.
func (r *Run) Pick(q, t int) int {
	if r.Thorough() {
		return t
	}
	if r.Mini {
		if q >= 32 {
			return q / 16
		}
		if q >= 2 {
			return 2
		}
	}
	return q
}

// Rng returns a PCG stream determined by (seed, monitor id, stream).
func (r *Run) Rng(stream uint64) *rand.Rand {
	h := fnv.New64a()
	h.Write([]byte(r.ID))
	return rand.New(rand.NewPCG(uint64(r.Seed)*0x9E3779B97F4A7C15+h.Sum64(), stream*0xD1342543DE82EF95+1))
}

// W is a worker-local accumulator (merged into the Run by Merge).
type W struct {
	r        *Run
	Evals    int64
	counters map[string]int64
	sets     map[string]map[uint64]struct{}
	samples  []interface{}
}

// NewW creates a worker accumulator.
func (r *Run) NewW() *W {
	return &W{r: r, counters: map[string]int64{}, sets: map[string]map[uint64]struct{}{}}
}

func (w *W) Eval(n int64)              { w.Evals += n }
func (w *W) Count(name string)         { w.counters[name]++ }
func (w *W) CountN(name string, n int) { w.counters[name] += int64(n) }

// Distinct records key in the named set.
func (w *W) Distinct(set string, key uint64) {
	m := w.sets[set]
	if m == nil {
		m = map[uint64]struct{}{}
		w.sets[set] = m
	}
	m[key] = struct{}{}
}

// DistinctS hashes a string key.
func (w *W) DistinctS(set string, key string) { w.Distinct(set, Hash(key)) }

// Sample keeps up to a few samples per worker.
func (w *W) Sample(v interface{}) {
	if len(w.samples) < 3 {
		w.samples = append(w.samples, v)
	}
}

// Violate records a violation.
func (w *W) Violate(v Violation) { w.r.Violate(v) }

// Merge folds the worker state into the run.
func (w *W) Merge() {
	r := w.r
	r.evals.Add(w.Evals)
	r.mu.Lock()
	defer r.mu.Unlock()
	for k, v := range w.counters {
		r.counters[k] += v
	}
	for k, s := range w.sets {
		m := r.sets[k]
		if m == nil {
			m = map[uint64]struct{}{}
			r.sets[k] = m
		}
		for x := range s {
			m[x] = struct{}{}
		}
	}
	for _, s := range w.samples {
		if len(r.samples) < r.sampleCap {
			r.samples = append(r.samples, s)
		}
	}
}

// Hash is FNV-1a 64.
func Hash(s string) uint64 {
	h := uint64(14695981039346656037)
	for i := 0; i < len(s); i++ {
		h ^= uint64(s[i])
		h *= 1099511628211
	}
	return h
}

// Parallel runs fn(worker, w, i) for i in [0,n) on all cores with dynamic
// chunking; each worker has its own accumulator.
func (r *Run) Parallel(n int, chunk int, fn func(w *W, i int)) {
	if chunk < 1 {
		chunk = 1
	}
	if miniRange := r.MiniRange; r.Mini && n > miniRange && n > miniFull {
		// compact re-run: a seed- and phase-determined residue class of the index range
		stride := (n + miniRange - 1) / miniRange
		off := int((uint64(r.Seed)*0x9E3779B97F4A7C15 + uint64(r.miniSeq.Add(1))*0xD1342543DE82EF95) >> 33 % uint64(stride))
		inner := fn
		m := (n - off + stride - 1) / stride
		fn = func(w *W, j int) { inner(w, off+j*stride) }
		n = m
		chunk = 1
	}
	var next atomic.Int64
	var wg sync.WaitGroup
	workers := r.Workers
	if workers > n/chunk+1 {
		workers = n/chunk + 1
	}
	for g := 0; g < workers; g++ {
		wg.Add(1)
		go func() {
			defer wg.Done()
			w := r.NewW()
			defer w.Merge()
			for {
				lo := int(next.Add(int64(chunk))) - chunk
				if lo >= n {
					return
				}
				hi := lo + chunk
				if hi > n {
					hi = n
				}
				for i := lo; i < hi; i++ {
					fn(w, i)
				}
			}
		}()
	}
	wg.Wait()
}

// Count adds to a run-level counter.
func (r *Run) Count(name string, n int64) {
	r.mu.Lock()
	r.counters[name] += n
	r.mu.Unlock()
}

// Counter reads a run-level counter.
func (r *Run) Counter(name string) int64 {
	r.mu.Lock()
	defer r.mu.Unlock()
	return r.counters[name]
}

// SetSize returns the size of a distinct set.
func (r *Run) SetSize(name string) int {
	r.mu.Lock()
	defer r.mu.Unlock()
	return len(r.sets[name])
}

// AddEvals adds to the evaluation count.
func (r *Run) AddEvals(n int64) { r.evals.Add(n) }

// Extra stores an extra coverage key.
func (r *Run) Extra(k string, v interface{}) {
	r.mu.Lock()
	r.extra[k] = v
	r.mu.Unlock()
}

// Sample stores a run-level sample.
func (r *Run) Sample(v interface{}) {
	r.mu.Lock()
	if len(r.samples) < r.sampleCap {
		r.samples = append(r.samples, v)
	}
	r.mu.Unlock()
}

// Note adds a free-text note to the evidence.
func (r *Run) Note(format string, a ...interface{}) {
	r.mu.Lock()
	r.notes = append(r.notes, fmt.Sprintf(format, a...))
	r.mu.Unlock()
}

// Inconclusive records a reason why the run cannot give a verdict.
func (r *Run) Inconclusive(format string, a ...interface{}) {
	r.mu.Lock()
	r.inconcl = append(r.inconcl, fmt.Sprintf(format, a...))
	r.mu.Unlock()
}

// Known records a hit of a listed known finding.
func (r *Run) Known(id, what string) {
	r.mu.Lock()
	r.known[id]++
	if _, ok := r.knownMsg[id]; !ok {
		r.knownMsg[id] = what
	}
	r.mu.Unlock()
}

const maxReplayFiles = 25

// Violate records a violation, writes its replay file and prints the
// VIOLATION line.
func (r *Run) Violate(v Violation) {
	n := r.nviol.Add(1)
	v.Property = r.ID
	v.Seed = r.Seed
	if r.Child {
		b, _ := json.Marshal(v)
		fmt.Printf("CHILD-VIOLATION %s\n", b)
		return
	}
	if r.Replay {
		b, _ := json.MarshalIndent(v, "", "  ")
		fmt.Printf("VIOLATION property=%s replay=(replayed) check=%s\n%s\n", r.ID, v.Check, b)
		return
	}
	if n > maxReplayFiles {
		return
	}
	path := filepath.Join(r.OutDir, fmt.Sprintf("replay-%d.json", n))
	b, _ := json.MarshalIndent(v, "", "  ")
	os.WriteFile(path, b, 0o644)
	r.mu.Lock()
	r.viols = append(r.viols, v)
	r.mu.Unlock()
	fmt.Printf("VIOLATION property=%s replay=%s\n", r.ID, path)
	fmt.Printf("  check=%s case=%s/%q observed=%v expected=%v %s\n", v.Check, v.Case.Kind, clip(v.Case.Input, 200), clipAny(v.Observed), clipAny(v.Expected), clipAny(v.Note))
}

// Violations returns the number of violations so far.
func (r *Run) Violations() int64 { return r.nviol.Load() }

func clip(s string, n int) string {
	if len(s) > n {
		return s[:n] + fmt.Sprintf("...(%d bytes)", len(s))
	}
	return s
}
func clipAny(v interface{}) string {
	s := strings.ReplaceAll(clip(fmt.Sprint(v), 300), "\n", " | ")
	return strings.Map(func(r rune) rune {
		if r < 0x20 || r == 0x7f || r == 0xfffd {
			return '.'
		}
		return r
	}, s)
}

// CleanOut removes old replay files of this property.
func (r *Run) CleanOut() {
	if r.Child {
		return
	}
	m, _ := filepath.Glob(filepath.Join(r.OutDir, "replay-*.json"))
	for _, f := range m {
		os.Remove(f)
	}
}

// Finish writes the evidence file and returns the exit code.
// distinctSets names the sets whose sizes add up to distinct_nontrivial.
func (r *Run) Finish(rule string, exhaustive bool, distinct int64, floorEvals, floorDistinct int64, assumptions []string) int {
	wall := time.Since(r.Start).Seconds()
	evals := r.evals.Load()
	if r.Mini {
		fmt.Printf("CHILD-DONE evaluations=%d violations=%d wall=%.1fs\n", evals, r.nviol.Load(), wall)
		return 0
	}
	if evals < floorEvals {
		r.Inconclusive("observed %d evaluations, below the floor %d", evals, floorEvals)
	}
	if distinct < floorDistinct {
		r.Inconclusive("observed %d distinct non-trivial cases, below the floor %d", distinct, floorDistinct)
	}
	if a := addedDimensions[r.ID]; a != "" {
		rule += " | Added later (DESIGN 9.3-9.7): " + a
	}
	r.mu.Lock()
	cov := map[string]interface{}{
		"evaluations":         evals,
		"distinct_nontrivial": distinct,
		"rule":                rule,
		"samples":             r.samples,
		"exhaustive":          exhaustive,
	}
	ck := make([]string, 0, len(r.counters))
	for k := range r.counters {
		ck = append(ck, k)
	}
	sort.Strings(ck)
	cnt := map[string]int64{}
	for _, k := range ck {
		cnt[k] = r.counters[k]
	}
	cov["counters"] = cnt
	sz := map[string]int{}
	for k, s := range r.sets {
		sz[k] = len(s)
	}
	cov["distinct_sets"] = sz
	for k, v := range r.extra {
		cov[k] = v
	}
	if len(r.notes) > 0 {
		cov["notes"] = r.notes
	}
	if len(r.known) > 0 {
		kf := map[string]interface{}{}
		for id, n := range r.known {
			kf[id] = map[string]interface{}{"hits": n, "what": r.knownMsg[id]}
		}
		cov["known_findings_hit"] = kf
	}
	verdict := "held on everything explored"
	if r.nviol.Load() > 0 {
		verdict = "violated"
	} else if len(r.inconcl) > 0 {
		verdict = "inconclusive"
		cov["inconclusive"] = r.inconcl
	}
	cov["verdict"] = verdict
	if len(r.viols) > 0 {
		cov["violation_examples"] = r.viols[:min(len(r.viols), 5)]
	}
	if len(cov["samples"].([]interface{})) == 0 {
		cov["samples"] = []interface{}{"(no sample recorded)"}
	}
	ev := map[string]interface{}{
		"property_id": r.ID,
		"tier":        r.Tier,
		"seed":        r.Seed,
		"level":       "exploration",
		"coverage":    cov,
		"assumptions": assumptions,
		"wall_s":      wall,
		"violations":  r.nviol.Load(),
	}
	r.mu.Unlock()
	b, _ := json.MarshalIndent(ev, "", " ")
	if err := os.WriteFile(filepath.Join(r.EvDir, r.ID+".json"), append(b, '\n'), 0o644); err != nil {
		fmt.Println("INCONCLUSIVE cannot write evidence:", err)
		return 3
	}
	ids := make([]string, 0, len(r.known))
	for id := range r.known {
		ids = append(ids, id)
	}
	sort.Strings(ids)
	for _, id := range ids {
		fmt.Printf("KNOWN-FINDING: property=%s %s (%s; %d observations this run)\n", r.ID, r.knownMsg[id], id, r.known[id])
	}
	fmt.Printf("%s %s seed=%d: evaluations=%d distinct_nontrivial=%d violations=%d wall=%.1fs verdict=%s\n",
		r.ID, r.Tier, r.Seed, evals, distinct, r.nviol.Load(), wall, verdict)
	if r.nviol.Load() > 0 {
		return 1
	}
	if len(r.inconcl) > 0 {
		for _, s := range r.inconcl {
			fmt.Println("INCONCLUSIVE", r.ID, s)
		}
		return 3
	}
	return 0
}

// TrustedBase is stated in every evidence file.
var TrustedBase = []string{
	"Go toolchain and runtime, math/big, reflect, text/template, the race detector",
	"the harness's transcription of the FIRST v2 / v3.0 / v3.1 tables and equations (spec package), cross-checked by the library agreeing with it on every v3 vector",
	"verdicts use only API-observable state (exported fields and query results)",
}

// Monitor is the registry entry of one property.
type Monitor struct {
	ID     string
	Title  string
	Run    func(r *Run) int
	Replay func(r *Run, c Case) // re-executes the property's assertions on one case
}

var registry = map[string]*Monitor{}

func register(m *Monitor) { registry[m.ID] = m }

// Get returns the monitor for a property id.
func Get(id string) *Monitor { return registry[id] }

// IDs lists the registered monitors.
func IDs() []string {
	var out []string
	for k := range registry {
		out = append(out, k)
	}
	sort.Strings(out)
	return out
}

// internal sub-commands (child processes of some monitors, tools)
var internals = map[string]func(args []string, seed int64, dir string) int{}

// Internal returns an internal sub-command handler.
func Internal(name string) func(args []string, seed int64, dir string) int { return internals[name] }

// Phase logs the wall time since the previous phase mark (diagnostics only;
// no verdict depends on it).
func (r *Run) Phase(name string) {
	now := time.Now()
	r.mu.Lock()
	if r.lastPhase.IsZero() {
		r.lastPhase = r.Start
	}
	d := now.Sub(r.lastPhase)
	r.lastPhase = now
	r.mu.Unlock()
	fmt.Printf("  phase %-40s %.1fs\n", name, d.Seconds())
}

// childBinary is the monitor binary used for child processes: $VERIF_MON when
// set (the coverage pass runs the parent inside a test binary, which must not
// be re-executed), else the running executable.
func childBinary() string {
	if p := os.Getenv("VERIF_MON"); p != "" {
		if _, err := os.Stat(p); err == nil {
			return p
		}
	}
	p, _ := os.Executable()
	return p
}

// RunChildChecks starts the monitor binary with an internal command and forwards the violations the
// child reports (CHILD-VIOLATION lines) into this run.  It returns the child's other output lines.
func (r *Run) RunChildChecks(tag string, args ...string) ([]string, error) {
	return r.runChildChecksEnv(tag, nil, args...)
}

func (r *Run) runChildChecksEnv(tag string, env []string, args ...string) ([]string, error) {
	cmd := exec.Command(childBinary(), args...)
	cmd.Env = append(os.Environ(), env...)
	out, err := cmd.Output()
	var rest []string
	for _, line := range strings.Split(string(out), "\n") {
		if strings.HasPrefix(line, "CHILD-VIOLATION ") {
			var v Violation
			if json.Unmarshal([]byte(line[len("CHILD-VIOLATION "):]), &v) == nil {
				if v.Case.Args == nil {
					v.Case.Args = map[string]string{}
				}
				v.Case.Args["child_process"] = tag
				if strings.HasPrefix(tag, "GOMAXPROCS=") && len(args) > 3 {
					v.Case.Args["child_range"] = args[3]
				}
				r.Violate(v)
			}
			continue
		}
		if line != "" {
			rest = append(rest, line)
		}
	}
	return rest, err
}

// miniFull: index ranges up to this size (all v3 base vectors, twice) are never subsampled in a compact re-run.
const miniFull = 11000

// ProcsChildren re-runs this monitor, cut down, in fresh child processes whose GOMAXPROCS is each of
// procs, every Parallel phase restricted to a residue class of at most rangeLimit indexes (a table sharded, striped or filled "per P" is only complete for some processor counts; a
// single-P process takes code paths no 16-P process takes).  Violations the children find are
// reported by this run; their evaluations are added to its count.
func (r *Run) ProcsChildren(rangeLimit int, procs ...int) {
	if r.Child || r.Replay || os.Getenv("VERIF_NO_PROCS") != "" {
		return
	}
	type res struct {
		rest []string
		err  error
	}
	out := make([]res, len(procs))
	var wg sync.WaitGroup
	for i, p := range procs {
		wg.Add(1)
		go func(i, p int) {
			defer wg.Done()
			lim := rangeLimit
			if p == 1 && lim > 600 {
				lim /= 3 // the single-P child has one core
			}
			rest, err := r.runChildChecksEnv(fmt.Sprintf("GOMAXPROCS=%d", p), []string{fmt.Sprintf("GOMAXPROCS=%d", p)}, "procchild", r.ID, fmt.Sprint(r.Seed), fmt.Sprint(lim))
			out[i] = res{rest, err}
		}(i, p)
	}
	wg.Wait()
	for i, p := range procs {
		done := false
		for _, l := range out[i].rest {
			var ev, nv int64
			var wall float64
			if n, _ := fmt.Sscanf(l, "CHILD-DONE evaluations=%d violations=%d wall=%fs", &ev, &nv, &wall); n == 3 {
				done = true
				r.AddEvals(ev)
				r.Count(fmt.Sprintf("evaluations_in_child_process_with_GOMAXPROCS=%d", p), ev)
			}
		}
		if out[i].err != nil || !done {
			tail := out[i].rest
			if len(tail) > 6 {
				tail = tail[len(tail)-6:]
			}
			r.Inconclusive("child process with GOMAXPROCS=%d did not complete: %v %s", p, out[i].err, clip(strings.Join(tail, " | "), 600))
		}
	}
	r.Phase(fmt.Sprintf("compact re-run in child processes, GOMAXPROCS=%v", procs))
}

func init() {
	internals["procchild"] = func(args []string, seed int64, dir string) int {
		m := Get(args[0])
		if m == nil {
			return 3
		}
		if len(args) > 1 {
			fmt.Sscan(args[1], &seed)
		}
		r := NewRun(m.ID, "quick", seed, dir)
		r.Child, r.Mini, r.MiniRange = true, true, 6000
		if len(args) > 2 {
			fmt.Sscan(args[2], &r.MiniRange)
		}
		m.Run(r)
		return 0
	}
}

// GCStress runs fn while a background goroutine forces garbage collections every few milliseconds
// (sync.Pool contents, weak caches and finalizers behave differently under frequent collections).
func GCStress(fn func()) {
	stop := make(chan struct{})
	done := make(chan struct{})
	go func() {
		defer close(done)
		for {
			select {
			case <-stop:
				return
			default:
				runtime.GC()
				time.Sleep(10 * time.Millisecond)
			}
		}
	}()
	fn()
	close(stop)
	<-done
}

// ReplayInChild re-runs the compact child process that saw a violation (same monitor, seed, processor count and
// range limit): some violations depend on what that process rated before (a memo shared between vectors) and
// cannot be reproduced from the single case.  Returns the number of violations the child reports.
func ReplayInChild(id string, seed int64, procs, rangeLimit string) (int, error) {
	cmd := exec.Command(childBinary(), "procchild", id, fmt.Sprint(seed), rangeLimit)
	cmd.Env = append(os.Environ(), "GOMAXPROCS="+procs)
	out, err := cmd.Output()
	n := 0
	for _, line := range strings.Split(string(out), "\n") {
		if strings.HasPrefix(line, "CHILD-VIOLATION ") {
			n++
			if n <= 3 {
				fmt.Println(clip(line, 600))
			}
		}
	}
	return n, err
}
