package mon

import (
	"bufio"
	"encoding/json"
	"fmt"
	"go/ast"
	"go/parser"
	"go/token"
	"os"
	"path/filepath"
	"sort"
	"strconv"
	"strings"
)

// covsum <profile> <repo> <evidence.json> <property> [properties.jsonl]
// merges a summary of a Go cover profile (library statements executed while the
// monitor ran) into the evidence file: per package, per anchored file of the
// property, and the list of library functions never entered.
func init() {
	internals["covsum"] = func(args []string, _ int64, _ string) int {
		if len(args) < 4 {
			fmt.Println("usage: covsum <profile> <repo> <evidence.json> <property> [properties.jsonl]")
			return 3
		}
		profile, repo, evPath, prop := args[0], args[1], args[2], args[3]
		const mod = "github.com/goark/go-cvss/"
		type blk struct {
			l0, l1, n, cnt int
		}
		files := map[string][]blk{}
		f, err := os.Open(profile)
		if err != nil {
			fmt.Println("covsum:", err)
			return 3
		}
		sc := bufio.NewScanner(f)
		for sc.Scan() {
			line := sc.Text()
			if strings.HasPrefix(line, "mode:") {
				continue
			}
			// file:sl.sc,el.ec n count
			i := strings.LastIndex(line, ":")
			if i < 0 {
				continue
			}
			name := line[:i]
			rest := strings.Fields(line[i+1:])
			if len(rest) != 3 || !strings.HasPrefix(name, mod) {
				continue
			}
			rng := strings.Split(rest[0], ",")
			l0, _ := strconv.Atoi(strings.Split(rng[0], ".")[0])
			l1, _ := strconv.Atoi(strings.Split(rng[1], ".")[0])
			n, _ := strconv.Atoi(rest[1])
			c, _ := strconv.Atoi(rest[2])
			rel := strings.TrimPrefix(name, mod)
			files[rel] = append(files[rel], blk{l0, l1, n, c})
		}
		f.Close()
		// merge duplicate blocks (several profiles concatenated)
		pkgTot, pkgCov := map[string]int{}, map[string]int{}
		fileCov := map[string][2]int{}
		var never []string
		fset := token.NewFileSet()
		for rel, bs := range files {
			type key struct{ l0, l1 int }
			merged := map[key]*blk{}
			for i := range bs {
				k := key{bs[i].l0, bs[i].l1}
				if m, ok := merged[k]; ok {
					m.cnt += bs[i].cnt
				} else {
					b := bs[i]
					merged[k] = &b
				}
			}
			tot, cov := 0, 0
			for _, b := range merged {
				tot += b.n
				if b.cnt > 0 {
					cov += b.n
				}
			}
			pkg := filepath.Dir(rel)
			pkgTot[pkg] += tot
			pkgCov[pkg] += cov
			fileCov[rel] = [2]int{cov, tot}
			af, err := parser.ParseFile(fset, filepath.Join(repo, rel), nil, 0)
			if err != nil {
				continue
			}
			for _, d := range af.Decls {
				fd, ok := d.(*ast.FuncDecl)
				if !ok || fd.Body == nil {
					continue
				}
				a, b := fset.Position(fd.Pos()).Line, fset.Position(fd.End()).Line
				entered, has := false, false
				for _, blk := range merged {
					if blk.l0 >= a && blk.l1 <= b {
						has = true
						if blk.cnt > 0 {
							entered = true
						}
					}
				}
				if has && !entered {
					name := fd.Name.Name
					if fd.Recv != nil && len(fd.Recv.List) > 0 {
						name = types(fd.Recv.List[0].Type) + "." + name
					}
					never = append(never, rel+":"+name)
				}
			}
		}
		sort.Strings(never)
		pk := map[string]string{}
		for p := range pkgTot {
			pk[p] = fmt.Sprintf("%d/%d statements (%.1f%%)", pkgCov[p], pkgTot[p], 100*float64(pkgCov[p])/float64(max(1, pkgTot[p])))
		}
		summary := map[string]interface{}{
			"how":                             "the same monitor re-run on the quick workload inside a test binary built with -cover -coverpkg=github.com/goark/go-cvss/... (child processes of C15/C16 are not instrumented)",
			"per_package":                     pk,
			"library_functions_never_entered": never,
		}
		// anchored files of the property
		if len(args) > 4 {
			if b, err := os.ReadFile(args[4]); err == nil {
				for _, line := range strings.Split(string(b), "\n") {
					var p struct {
						ID      string `json:"id"`
						Anchors struct {
							Files []string `json:"files"`
						} `json:"anchors"`
					}
					if json.Unmarshal([]byte(line), &p) == nil && p.ID == prop {
						anch := map[string]string{}
						isAnch := map[string]bool{}
						for _, af := range p.Anchors.Files {
							isAnch[af] = true
						}
						var neverAnch []string
						for _, n := range never {
							if isAnch[n[:strings.Index(n, ":")]] {
								neverAnch = append(neverAnch, n)
							}
						}
						if neverAnch == nil {
							neverAnch = []string{}
						}
						summary["functions_in_anchored_files_never_entered"] = neverAnch
						delete(summary, "library_functions_never_entered")
						for _, af := range p.Anchors.Files {
							if c, ok := fileCov[af]; ok {
								anch[af] = fmt.Sprintf("%d/%d", c[0], c[1])
							} else {
								anch[af] = "no executable statements recorded"
							}
						}
						summary["anchored_files_statements_covered"] = anch
					}
				}
			}
		}
		b, err := os.ReadFile(evPath)
		if err != nil {
			fmt.Println("covsum:", err)
			return 3
		}
		var ev map[string]interface{}
		if json.Unmarshal(b, &ev) != nil {
			return 3
		}
		cov, _ := ev["coverage"].(map[string]interface{})
		if cov == nil {
			return 3
		}
		cov["library_statement_coverage"] = summary
		out, _ := json.MarshalIndent(ev, "", " ")
		os.WriteFile(evPath, append(out, '\n'), 0o644)
		fmt.Printf("library coverage under the %s monitor: %v\n", prop, pk)
		return 0
	}
}

func types(e ast.Expr) string {
	switch t := e.(type) {
	case *ast.StarExpr:
		return "*" + types(t.X)
	case *ast.Ident:
		return t.Name
	}
	return "?"
}
