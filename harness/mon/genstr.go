package mon

import (
	"fmt"
	"math/rand/v2"
	"sort"
	"strings"

	"verif/harness/spec"
)

// strMeta says how a workload string was produced.
type strMeta struct {
	Src         string // generator
	V2          bool
	Sharp       int // spec.Defect that a single classified edit introduced, or -1
	SharpMin    int // decoder levels (inclusive) for which Sharp applies
	SharpMax    int
	SharpMetric string // the metric the classified edit touched ("-" when none)
}

type strVisitor func(w *W, s string, m *strMeta)

var editAlphabet = []string{"A", "C", "E", "H", "I", "L", "M", "N", "P", "R", "S", "T", "U", "V", "W", "X", "F", "O", "D", "u",
	"0", "1", "2", "3", "9", ".", "/", ":", " ", "\t", "\n", "\x00", "a", "c", "n", "v", "é", "-"}

// seed3 draws a valid v3 vector whose highest written metric level is `level`.
func seed3(rng *rand.Rand, level int) spec.V3 {
	v := newV3(rng.IntN(2), rng.IntN(nBase3))
	for m := spec.E; m < spec.V3LevelEnd(level); m++ {
		if rng.IntN(10) < 7 {
			v.M[m] = int8(rng.IntN(len(spec.V3Metrics[m].Codes)))
		}
	}
	if level > spec.LBase {
		// make sure at least one metric of the top level is written
		lo, hi := spec.E, spec.CR
		if level == spec.LEnv {
			lo, hi = spec.CR, spec.N3
		}
		m := lo + rng.IntN(hi-lo)
		if v.M[m] < 0 {
			v.M[m] = int8(rng.IntN(len(spec.V3Metrics[m].Codes)))
		}
	}
	return v
}

func toks3(v *spec.V3, level int, rng *rand.Rand, shuffle bool) []string {
	t := v.Tokens(level)
	if shuffle {
		rng.Shuffle(len(t), func(i, j int) { t[i], t[j] = t[j], t[i] })
	}
	return t
}

func join3(prefix string, toks []string) string {
	if len(toks) == 0 {
		return prefix
	}
	return prefix + "/" + strings.Join(toks, "/")
}

// seed2 draws a valid v2 vector of the given level.
func seed2(rng *rand.Rand, level int) spec.V2 {
	var v spec.V2
	base2(&v, rng.IntN(nBase2))
	switch level {
	case spec.LTemp:
		temporal2(&v, rng.IntN(nTemp2))
	case spec.LEnv:
		if rng.IntN(3) > 0 {
			temporal2(&v, rng.IntN(nTemp2))
		}
		env2(&v, rng.IntN(nEnv2))
	}
	return v
}

// charEdits visits every single-character edit of s.
func charEdits(w *W, s string, m *strMeta, visit strVisitor) {
	m.Sharp = -1
	n := len(s)
	for p := 0; p < n; p++ {
		visit(w, s[:p]+s[p+1:], m) // delete
		if p+1 < n && s[p] != s[p+1] {
			visit(w, s[:p]+s[p+1:p+2]+s[p:p+1]+s[p+2:], m) // transpose
		}
		for _, a := range editAlphabet {
			visit(w, s[:p]+a+s[p:], m) // insert
			if a != s[p:p+1] {
				visit(w, s[:p]+a+s[p+1:], m) // replace
			}
		}
		// byte-level relatives of the character itself: high bit set, case flipped, neighbours, 0x80, 0xff
		c := s[p]
		for _, b := range []byte{c | 0x80, c ^ 0x20, c + 1, c - 1, 0x80, 0xff, c &^ 0x40} {
			if b != c {
				visit(w, s[:p]+string([]byte{b})+s[p+1:], m)
			}
		}
		// rune-level relatives: code points whose low byte is c, the fullwidth form, and the percent escape
		if c < 0x80 {
			for _, r := range []rune{0x100 + rune(c), 0x400 + rune(c), 0x10000 + rune(c)} {
				visit(w, s[:p]+string(r)+s[p+1:], m)
			}
			if c > 0x20 && c < 0x7f {
				visit(w, s[:p]+string(rune(0xFF00+int(c)-0x20))+s[p+1:], m)
			}
			visit(w, s[:p]+fmt.Sprintf("%%%02X", c)+s[p+1:], m)
			visit(w, s[:p]+fmt.Sprintf("%%%02x", c)+s[p+1:], m)
			// the character written in other escape notations: HTML / XML character references, backslash
			// and Unicode escapes, quoted-printable
			for _, e := range escapesOf(c) {
				visit(w, s[:p]+e+s[p+1:], m)
			}
		}
	}
	// every occurrence of one character written as an escape (a feed that escapes '/' or ':' does so everywhere)
	for _, c := range []byte{'/', ':', '.', 'A', 'N'} {
		if strings.IndexByte(s, c) < 0 {
			continue
		}
		for _, e := range escapesOf(c) {
			visit(w, strings.ReplaceAll(s, string(c), e), m)
		}
		visit(w, strings.ReplaceAll(s, string(c), fmt.Sprintf("%%%02X", c)), m)
	}
	for _, a := range editAlphabet {
		visit(w, s+a, m)
	}
}

// escapesOf lists how other notations write the ASCII character c.
func escapesOf(c byte) []string {
	out := []string{fmt.Sprintf("&#%d;", c), fmt.Sprintf("&#x%X;", c), fmt.Sprintf("&#x%x;", c), fmt.Sprintf("&#%03d;", c), fmt.Sprintf("\\x%02x", c), fmt.Sprintf("\\u%04x", c),
		fmt.Sprintf("\\%03o", c), fmt.Sprintf("=%02X", c), fmt.Sprintf("U+%04X", c), "\\" + string(c)}
	switch c {
	case '/':
		out = append(out, "&sol;", "&frasl;", "\u2215", "\u2044")
	case ':':
		out = append(out, "&colon;", "\ua789", "\u2236")
	case '.':
		out = append(out, "&period;")
	case '&':
		out = append(out, "&amp;")
	}
	return out
}

func without(toks []string, i int) []string {
	out := make([]string, 0, len(toks)-1)
	out = append(out, toks[:i]...)
	return append(out, toks[i+1:]...)
}

func inserted(toks []string, i int, t string) []string {
	out := make([]string, 0, len(toks)+1)
	out = append(out, toks[:i]...)
	out = append(out, t)
	return append(out, toks[i:]...)
}

func replaced(toks []string, i int, t string) []string {
	out := append([]string(nil), toks...)
	out[i] = t
	return out
}

// numericVersionLabels are version labels that equal 3.0 / 3.1 only for a parser that reads the two
// fields as numbers: wrapped at 2^8, 2^16, 2^32, 2^64, signs, exponents, radix prefixes, leading or
// trailing zeros, digit separators, other digit scripts.
var numericVersionLabels = func() []string {
	var out []string
	for _, w := range []string{"256", "65536", "4294967296", "18446744073709551616", "36893488147419103232", "340282366920938463463374607431768211456"} {
		for _, minor := range []string{"0", "1"} {
			out = append(out, "3."+addDec(w, minor), addDec(w, "3")+"."+minor)
		}
	}
	for _, minor := range []string{"0", "1"} {
		out = append(out, "3."+minor+"e0", "3."+minor+"E0", "0x3."+minor, "3.0x"+minor, "+3."+minor, "3.+"+minor, "-3."+minor, "3.-"+minor, "3."+minor+".0", "3.0"+minor, "3.00"+minor,
			"03."+minor, "3_0."+minor, "3."+minor+"_0", "3."+minor+"f", "3."+minor+"0", "3."+minor+"00", "3."+minor+"000000000000000000000", "3.0000000000000000000"+minor, "0b11."+minor, "0o3."+minor,
			"3."+minor+"p0", "3e0."+minor, "３."+minor, "3．"+minor, "3."+string('０'+rune(minor[0]-'0')), "٣."+minor, "3 ."+minor, "3. "+minor, "3."+minor+"\x00", "3."+minor+"%00", "III."+minor)
	}
	return out
}()

// addDec adds two non-negative decimal numerals.
func addDec(a, b string) string {
	var out []byte
	carry := 0
	for i, j := len(a)-1, len(b)-1; i >= 0 || j >= 0 || carry > 0; i, j = i-1, j-1 {
		d := carry
		if i >= 0 {
			d += int(a[i] - '0')
		}
		if j >= 0 {
			d += int(b[j] - '0')
		}
		out = append([]byte{byte('0' + d%10)}, out...)
		carry = d / 10
	}
	return string(out)
}

// foreignNotations renders a complete vector the way other tools, feeds and databases write it (none of
// these is the library's language): brackets and quotes, key=value, scheme-like prefixes, and the score
// written in front of, behind or inside the vector - every tenth from 0.0 to 10.0, so that the vector's own
// score is among them.
func foreignNotations(vec string, v2 bool) []string {
	out := []string{"(" + vec + ")", "[" + vec + "]", "{" + vec + "}", "<" + vec + ">", "\"" + vec + "\"", "'" + vec + "'", "`" + vec + "`", "vector=" + vec, "vector:" + vec, "cvss=" + vec,
		"CVSS#" + vec, "#" + vec, vec + "#", vec + ";", vec + ",", vec + ".", "CVSS:" + vec, "cvss:" + vec, vec + " (" + vec + ")", vec + "\r\n", "\r\n" + vec, vec + "\x00", "\t" + vec, vec + "\t"}
	if v2 {
		out = append(out, "CVSS2#"+vec, "cvss2="+vec, "CVSSv2#"+vec, "v2/"+vec, "2.0/"+vec, "CVSS:2.0/"+vec, "CVSS:2/"+vec, "("+vec+")/2.0", "AV:N/AC:L/Au:N/C:P/I:P/A:P/"+vec)
	} else {
		body := strings.TrimPrefix(strings.TrimPrefix(vec, "CVSS:3.0/"), "CVSS:3.1/")
		out = append(out, "CVSS3#"+body, "cvss3="+body, "CVSSv3#"+body, "v3/"+body, "3.1/"+body, "CVSS:3/"+body, "CVSS:3.x/"+body, vec+"/CVSS:3.1", vec+"/"+vec)
	}
	for t := 0; t <= 100; t++ {
		sc := fmt.Sprintf("%d.%d", t/10, t%10)
		out = append(out, sc+"/"+vec, vec+"/"+sc)
		if t%10 == 0 {
			out = append(out, fmt.Sprint(t/10)+"/"+vec)
		}
		if t%7 == 3 {
			out = append(out, sc+" "+vec, vec+" "+sc, sc+":"+vec, vec+"="+sc, "("+sc+") "+vec, vec+" ("+sc+")")
		}
		if !v2 {
			if p, body, ok := strings.Cut(vec, "/"); ok && t%3 == 0 {
				out = append(out, p+"/"+sc+"/"+body)
			}
		}
	}
	return out
}

var prefixCatalogue = []string{"CVSS:1.0", "CVSS:2.0", "CVSS:3", "CVSS:3.2", "CVSS:3.10", "CVSS:4.0", "cvss:3.1", "CVSS3.1", "CVSS:3.1:", "", " CVSS:3.1", "CVSS:3.1 ",
	"CVSS:", "CVSS", ":3.1", "CVSS:3.0.", "CVSS::3.1", "CVSS:03.1", "CVSS:3.1\n", "XXX:3.1", "CVSS:3,1", "CVSS:٣.١"}

// all value codes / names of both versions (for cross-metric substitution)
var allCodes, allNames3, allNames2 []string

func init() {
	seen := map[string]bool{}
	add := func(c string) {
		if !seen[c] {
			seen[c] = true
			allCodes = append(allCodes, c)
		}
	}
	for _, m := range spec.V3Metrics {
		allNames3 = append(allNames3, m.Name)
		for _, c := range m.Codes {
			add(c)
		}
	}
	for _, m := range spec.V2Metrics {
		allNames2 = append(allNames2, m.Name)
		for _, c := range m.Codes {
			add(c)
		}
	}
}

// tokenEdits3 visits the token-level neighbourhood of a v3 vector.
func tokenEdits3(w *W, prefix string, toks []string, m *strMeta, visit strVisitor) {
	m.Sharp = -1
	n := len(toks)
	for i := 0; i < n; i++ {
		visit(w, join3(prefix, without(toks, i)), m)                       // drop
		visit(w, join3(prefix, inserted(toks, i, toks[i])), m)             // duplicate adjacent
		visit(w, join3(prefix, inserted(toks, n, toks[i])), m)             // duplicate distant (end)
		visit(w, join3(prefix, inserted(toks, 0, toks[i])), m)             // duplicate distant (front)
		visit(w, join3(prefix, inserted(without(toks, i), 0, toks[i])), m) // move to front
		visit(w, join3(prefix, append(without(toks, i), toks[i])), m)      // move to end
		visit(w, join3(prefix, inserted(toks, i, "")), m)                  // empty token (doubled '/')
		name, val, _ := strings.Cut(toks[i], ":")
		for _, c := range allCodes {
			if c != val {
				visit(w, join3(prefix, replaced(toks, i, name+":"+c)), m)           // value of another metric / X
				visit(w, join3(prefix, inserted(toks, (i+3)%(n+1), name+":"+c)), m) // duplicate with a different value
			}
		}
		for _, nm := range allNames3 {
			if nm != name {
				visit(w, join3(prefix, replaced(toks, i, nm+":"+val)), m)
			}
		}
		for _, nm := range allNames2 {
			visit(w, join3(prefix, replaced(toks, i, nm+":"+val)), m)
		}
		for _, t := range []string{name, name + ":", ":" + val, name + "::" + val, name + ":" + val + ":", name + ":" + val + ":" + val, ":" + name + ":" + val,
			strings.ToLower(name) + ":" + val, name + ":" + strings.ToLower(val), name + "=" + val, name + " :" + val, name + ": " + val, " " + name + ":" + val, name + ":" + val + " "} {
			visit(w, join3(prefix, replaced(toks, i, t)), m)
		}
		for j := i + 1; j < n; j++ {
			sw := append([]string(nil), toks...)
			sw[i], sw[j] = sw[j], sw[i]
			visit(w, join3(prefix, sw), m) // swap
		}
	}
	blockMoves(w, toks, func(t []string) string { return join3(prefix, t) }, m, visit)
	body := strings.Join(toks, "/")
	for _, s := range []string{prefix + "//" + body, "/" + prefix + "/" + body, prefix + "/" + body + "/", prefix + "/" + body + "//", prefix + body, prefix + ":" + body,
		prefix + "/" + strings.ReplaceAll(body, "/", "//"), prefix + "/" + strings.ReplaceAll(body, "/", " /"), prefix + "/" + strings.ReplaceAll(body, ":", "::"),
		prefix + "/" + strings.ToLower(body), strings.ToLower(prefix) + "/" + body, prefix + "/" + body + "\n", "\ufeff" + prefix + "/" + body, "(" + prefix + "/" + body + ")",
		prefix + "\\" + strings.ReplaceAll(body, "/", "\\"), prefix + " " + strings.ReplaceAll(body, "/", " "), body, prefix} {
		visit(w, s, m)
	}
	for _, p := range prefixCatalogue {
		visit(w, join3(p, toks), m)
	}
	for _, l := range numericVersionLabels {
		visit(w, join3("CVSS:"+l, toks), m)
	}
	for _, s := range foreignNotations(join3(prefix, toks), false) {
		visit(w, s, m)
	}
	for _, o := range namedOrders(toks) {
		visit(w, join3(prefix, o), m)
	}
	structuralEdits3(w, prefix, toks, m, visit)
}

// blockMoves visits every relocation of every contiguous block of 2..5 tokens.
func blockMoves(w *W, toks []string, join func([]string) string, m *strMeta, visit strVisitor) {
	n := len(toks)
	for i := 0; i < n; i++ {
		for l := 2; l <= 5 && i+l <= n; l++ {
			block := toks[i : i+l]
			rest := append(append([]string(nil), toks[:i]...), toks[i+l:]...)
			for pos := 0; pos <= len(rest); pos++ {
				if pos == i {
					continue
				}
				out := append(append(append([]string(nil), rest[:pos]...), block...), rest[pos:]...)
				visit(w, join(out), m)
			}
		}
	}
}

// badCodes returns value codes that are not valid for the metric with the
// given code set (well-formed alphabetic tokens: the only defect is the value).
func badCodes(valid []string) []string {
	out := []string{"Z", "XX", "Q"}
	out = append(out, strings.ToLower(valid[0]))
	isValid := func(c string) bool {
		for _, v := range valid {
			if v == c {
				return true
			}
		}
		return false
	}
	for _, c := range allCodes {
		if !isValid(c) {
			out = append(out, c)
		}
	}
	return out
}

var malformedTokens = []string{"AV", "AV:N:N", ":N", "AV:", "", ":", "::", "E", "MAV:X:X", "CVSS:3.1:X"}

// sharp3 visits the single-classified-edit inputs built from valid vector v
// (whose level is L) with token order toks.
func sharp3(w *W, v *spec.V3, L int, toks []string, rng *rand.Rand, visit strVisitor) {
	prefix := "CVSS:" + spec.V3Versions[v.Ver]
	n := len(toks)
	m := &strMeta{Src: "sharp3"}
	set := func(d spec.Defect, lo, hi int) { m.Sharp, m.SharpMin, m.SharpMax = int(d), lo, hi }
	for i := 0; i < n; i++ {
		name, val, _ := strings.Cut(toks[i], ":")
		mi := spec.V3Index(name)
		m.SharpMetric = name
		// unknown value code -> invalid value
		set(spec.DInvalidValue, L, spec.LEnv)
		for _, c := range badCodes(spec.V3Metrics[mi].Codes) {
			visit(w, join3(prefix, replaced(toks, i, name+":"+c)), m)
		}
		// repeated metric -> same metric (same value and another valid value, every position)
		set(spec.DSameMetric, L, spec.LEnv)
		other := spec.V3Metrics[mi].Codes[(spec.V3CodeIndex(mi, val)+1)%len(spec.V3Metrics[mi].Codes)]
		for j := 0; j <= n; j++ {
			visit(w, join3(prefix, inserted(toks, j, toks[i])), m)
			visit(w, join3(prefix, inserted(toks, j, name+":"+other)), m)
		}
		// one base metric removed -> no base metrics
		if mi <= spec.A {
			set(spec.DNoBase, L, spec.LEnv)
			visit(w, join3(prefix, without(toks, i)), m)
		}
	}
	m.SharpMetric = "-"
	// malformed token inserted at every position -> invalid vector
	set(spec.DInvalidVector, L, spec.LEnv)
	for j := 0; j <= n; j++ {
		for _, t := range malformedTokens {
			visit(w, join3(prefix, inserted(toks, j, t)), m)
		}
	}
	// malformed prefix -> invalid vector
	for _, p := range []string{"XXX:3.1", "CVSS3.1", "cvss:3.1", "CVSS", "", "CVSS:3.1:1", "Cvss:3.0", "CVSS-3.1", "3.1"} {
		visit(w, join3(p, toks), m)
	}
	// well-formed prefix, another version -> unsupported version
	set(spec.DNotSupportVer, L, spec.LEnv)
	for _, p := range []string{"CVSS:1.0", "CVSS:2.0", "CVSS:3.2", "CVSS:4.0", "CVSS:3.10", "CVSS:3", "CVSS:30", "CVSS:3.00"} {
		visit(w, join3(p, toks), m)
	}
	// a name outside the decoder's level inserted into a complete vector -> unsupported metric.
	// Names unknown to every level: single defect at every decoder that accepts the seed.
	set(spec.DNotSupportMetric, L, spec.LEnv)
	for j := 0; j <= n; j++ {
		for _, t := range []string{"ZZ:N", "av:N", "Au:N", "CDP:N", "TD:H", "Av:N", "X:X", "AVV:N"} {
			visit(w, join3(prefix, inserted(toks, j, t)), m)
		}
	}
	// A metric of level l > L (valid value): outside the level of decoders L..l-1.
	for mi := spec.V3LevelEnd(L); mi < spec.N3; mi++ {
		md := spec.V3Metrics[mi]
		set(spec.DNotSupportMetric, L, md.Level-1)
		m.SharpMetric = md.Name
		t := md.Name + ":" + md.Codes[rng.IntN(len(md.Codes))]
		for j := 0; j <= n; j++ {
			visit(w, join3(prefix, inserted(toks, j, t)), m)
		}
	}
	// the seed itself offered to lower decoders: its higher-level names are the single kind of defect
	if L > spec.LBase {
		m.SharpMetric = "-"
		set(spec.DNotSupportMetric, spec.LBase, L-1)
		visit(w, join3(prefix, toks), m)
	}
}

// tokenEdits2 visits the token-level neighbourhood of a v2 vector.
func tokenEdits2(w *W, toks []string, m *strMeta, visit strVisitor) {
	m.Sharp = -1
	n := len(toks)
	j2 := func(t []string) string { return strings.Join(t, "/") }
	for i := 0; i < n; i++ {
		visit(w, j2(without(toks, i)), m)
		visit(w, j2(inserted(toks, i, toks[i])), m)
		visit(w, j2(inserted(toks, n, toks[i])), m)
		visit(w, j2(inserted(toks, 0, toks[i])), m)
		visit(w, j2(inserted(without(toks, i), 0, toks[i])), m)
		visit(w, j2(append(without(toks, i), toks[i])), m)
		visit(w, j2(inserted(toks, i, "")), m)
		name, val, _ := strings.Cut(toks[i], ":")
		for _, c := range allCodes {
			if c != val {
				visit(w, j2(replaced(toks, i, name+":"+c)), m)
				visit(w, j2(inserted(toks, (i+3)%(n+1), name+":"+c)), m)
			}
		}
		for _, nm := range allNames2 {
			if nm != name {
				visit(w, j2(replaced(toks, i, nm+":"+val)), m)
			}
		}
		for _, nm := range allNames3 {
			visit(w, j2(replaced(toks, i, nm+":"+val)), m)
		}
		for _, t := range []string{name, name + ":", ":" + val, name + "::" + val, name + ":" + val + ":", name + ":" + val + ":" + val,
			strings.ToLower(name) + ":" + val, strings.ToUpper(name) + ":" + val, name + ":" + strings.ToLower(val), name + "=" + val, name + ": " + val, " " + name + ":" + val, name + ":" + val + " "} {
			visit(w, j2(replaced(toks, i, t)), m)
		}
		for j := i + 1; j < n; j++ {
			sw := append([]string(nil), toks...)
			sw[i], sw[j] = sw[j], sw[i]
			visit(w, j2(sw), m)
			// drop two
			visit(w, j2(without(without(toks, j), i)), m)
		}
	}
	blockMoves(w, toks, j2, m, visit)
	body := j2(toks)
	for _, s := range []string{"/" + body, body + "/", "//" + body, body + "//", "CVSS:2.0/" + body, "CVSS:3.1/" + body, "(" + body + ")", "(" + body, body + ")", " " + body, body + " ", body + "\n",
		strings.ReplaceAll(body, "/", "//"), strings.ReplaceAll(body, "/", " "), strings.ReplaceAll(body, "/", "\\"), strings.ToLower(body), strings.ToUpper(body), strings.ReplaceAll(body, ":", "::"), "\ufeff" + body, ""} {
		visit(w, s, m)
	}
	for _, s := range foreignNotations(body, true) {
		visit(w, s, m)
	}
	// whole-group relocations
	if n >= 9 {
		b, rest := toks[:6], toks[6:]
		visit(w, j2(append(append([]string(nil), rest...), b...)), m)
		if n == 14 {
			t, e := toks[6:9], toks[9:]
			visit(w, j2(append(append(append([]string(nil), b...), e...), t...)), m)
			visit(w, j2(append(append(append([]string(nil), t...), b...), e...)), m)
			visit(w, j2(append(append(append([]string(nil), e...), t...), b...)), m)
		}
	}
}

// sharp2 visits the single-classified-edit inputs built from valid v2 vector v of level L.
func sharp2(w *W, v *spec.V2, L int, visit strVisitor) {
	toks := strings.Split(v.String(), "/")
	n := len(toks)
	j2 := func(t []string) string { return strings.Join(t, "/") }
	m := &strMeta{Src: "sharp2", V2: true}
	set := func(d spec.Defect, lo, hi int) { m.Sharp, m.SharpMin, m.SharpMax = int(d), lo, hi }
	for i := 0; i < n; i++ {
		name, val, _ := strings.Cut(toks[i], ":")
		mi := spec.V2Index(name)
		m.SharpMetric = name
		set(spec.DInvalidValue, L, spec.LEnv)
		for _, c := range badCodes(spec.V2Metrics[mi].Codes) {
			visit(w, j2(replaced(toks, i, name+":"+c)), m)
		}
		set(spec.DSameMetric, L, spec.LEnv)
		other := spec.V2Metrics[mi].Codes[(spec.V2CodeIndex(mi, val)+1)%len(spec.V2Metrics[mi].Codes)]
		for j := 0; j <= n; j++ {
			visit(w, j2(inserted(toks, j, toks[i])), m)
			visit(w, j2(inserted(toks, j, name+":"+other)), m)
		}
		if mi <= spec.V2A {
			set(spec.DNoBase, L, spec.LEnv)
			visit(w, j2(without(toks, i)), m)
		}
	}
	m.SharpMetric = "-"
	// incomplete groups: every way of dropping 1..k-1 members of a present group
	dropSubsets := func(lo, hi int, d spec.Defect) {
		k := hi - lo
		for mask := 1; mask < 1<<k-1; mask++ {
			var t []string
			for i := 0; i < n; i++ {
				if i >= lo && i < hi && mask>>(i-lo)&1 == 1 {
					continue
				}
				t = append(t, toks[i])
			}
			set(d, L, spec.LEnv)
			visit(w, j2(t), m)
		}
	}
	if v.HasT {
		dropSubsets(6, 9, spec.DNoTemporal)
	}
	if v.HasE {
		lo := 6
		if v.HasT {
			lo = 9
		}
		dropSubsets(lo, lo+5, spec.DNoEnv)
	}
	set(spec.DInvalidVector, L, spec.LEnv)
	for j := 0; j <= n; j++ {
		for _, t := range []string{"AV", "AV:N:N", ":N", "AV:", "", ":", "::", "E", "CDP:H:H"} {
			visit(w, j2(inserted(toks, j, t)), m)
		}
	}
	// valid complete tokens permuted -> misordered
	set(spec.DMisordered, L, spec.LEnv)
	for i := 0; i < n; i++ {
		for j := i + 1; j < n; j++ {
			sw := append([]string(nil), toks...)
			sw[i], sw[j] = sw[j], sw[i]
			visit(w, j2(sw), m)
		}
		if i > 0 {
			visit(w, j2(inserted(without(toks, i), 0, toks[i])), m)
		}
		if i < n-1 {
			visit(w, j2(append(without(toks, i), toks[i])), m)
		}
	}
	if n >= 9 {
		b, rest := toks[:6], toks[6:]
		visit(w, j2(append(append([]string(nil), rest...), b...)), m)
		if n == 14 {
			t, e := toks[6:9], toks[9:]
			visit(w, j2(append(append(append([]string(nil), b...), e...), t...)), m)
		}
	}
	// unknown name inserted into a complete vector -> unsupported metric
	set(spec.DNotSupportMetric, L, spec.LEnv)
	for j := 0; j <= n; j++ {
		for _, t := range []string{"ZZ:N", "av:N", "AU:N", "PR:N", "S:U", "MAV:N", "Cdp:N", "X:X"} {
			visit(w, j2(inserted(toks, j, t)), m)
		}
	}
	// the vector offered to lower decoders: group names outside the level
	if L > spec.LBase {
		set(spec.DNotSupportMetric, spec.LBase, L-1)
		visit(w, v.String(), m)
	}
}

// tokenPool returns the pool for the token-level exhaustive enumeration.
func tokenPool(v2 bool) []string {
	var pool []string
	if !v2 {
		for _, m := range spec.V3Metrics {
			for _, c := range m.Codes {
				pool = append(pool, m.Name+":"+c)
			}
		}
		pool = append(pool, "AV:X", "S:X", "E:N", "MS:N", "CR:N", "", ":", "AV", "AV:", ":N", "AV:N:N", "av:N", "AV:n", "ZZ:N", "Au:N", "CVSS:3.1", " ", "AV: N", "E:ND")
	} else {
		for _, m := range spec.V2Metrics {
			for _, c := range m.Codes {
				pool = append(pool, m.Name+":"+c)
			}
		}
		pool = append(pool, "AV:X", "E:X", "CDP:X", "", ":", "AV", "AV:", ":N", "AV:N:N", "av:N", "AV:n", "ZZ:N", "PR:N", "CVSS:2.0", " ", "AV: N", "AU:N")
	}
	return pool
}

// randomBytes draws an arbitrary byte string.
func randomBytes(rng *rand.Rand, maxLen int) string {
	n := rng.IntN(maxLen + 1)
	b := make([]byte, n)
	for i := range b {
		b[i] = byte(rng.IntN(256))
	}
	return string(b)
}

const grammarAlphabet = "CVSS:3.01/AVNLPCHRUIXEFTOWMDau2"

// randomGrammar draws a string over the grammar's alphabet.
func randomGrammar(rng *rand.Rand, maxLen int) string {
	n := rng.IntN(maxLen + 1)
	b := make([]byte, n)
	for i := range b {
		b[i] = grammarAlphabet[rng.IntN(len(grammarAlphabet))]
	}
	return string(b)
}

// randomTokens draws a '/'-joined sequence of pool tokens.
func randomTokens(rng *rand.Rand, pool []string, maxTok int, prefix string) string {
	n := rng.IntN(maxTok + 1)
	t := make([]string, 0, n+1)
	if prefix != "" {
		t = append(t, prefix)
	}
	for i := 0; i < n; i++ {
		t = append(t, pool[rng.IntN(len(pool))])
	}
	return strings.Join(t, "/")
}

// lengthSweep returns strings that probe count and length thresholds: exactly n
// separators / tokens / characters for every n up to 130 and around powers of two.
func lengthSweep(v2 bool, big bool) []string {
	prefix, valid := "CVSS:3.1/", "AV:N/AC:L/PR:N/UI:N/S:U/C:H/I:H/A:H"
	opt := []string{"E:X", "RL:X", "RC:X", "CR:X", "IR:X", "AR:X", "MAV:X", "MAC:X", "MPR:X", "MUI:X", "MS:X", "MC:X", "MI:X", "MA:X"}
	if v2 {
		prefix, valid = "", "AV:N/AC:L/Au:N/C:P/I:P/A:P"
		opt = []string{"E:ND", "RL:ND", "RC:ND", "CDP:ND", "TD:ND", "CR:ND", "IR:ND", "AR:ND"}
	}
	var ns []int
	for n := 0; n <= 130; n++ {
		ns = append(ns, n)
	}
	for _, c := range []int{255, 256, 257, 511, 512, 513, 1023, 1024, 1025} {
		ns = append(ns, c)
	}
	if big {
		ns = append(ns, 4095, 4096, 4097, 65535, 65536, 65537)
	}
	var out []string
	for _, n := range ns {
		rep := func(t string) string { return strings.Repeat(t, n) }
		out = append(out,
			prefix+valid+rep("/"),          // n trailing empty tokens
			prefix+valid+rep("/ZZ:N"),      // n unknown tokens
			prefix+valid+rep("/E:X"),       // n repeated optional tokens
			prefix+rep("AV:N/")+valid,      // n leading duplicates
			rep("/"),                       // only separators
			prefix+valid+"/"+rep(":"),      // n colons
			prefix+valid+"/E:"+rep("X"),    // value of length n
			prefix+valid+"/"+rep("E")+":X", // name of length n
			prefix+rep("/")+valid,          // n empty tokens before the metrics
			prefix+valid+"/"+strings.Join(opt[:min(n, len(opt))], "/")+rep("/"), // optional metrics then n empty tokens
		)
		// a valid vector padded to exactly n separators in total with unknown tokens
		base := prefix + valid
		have := strings.Count(base, "/")
		if n >= have {
			out = append(out, base+strings.Repeat("/ZZ:N", n-have), base+strings.Repeat("/", n-have))
		}
	}
	// runs of UTF-8 continuation bytes / lead bytes at the end, start and middle of fields of several lengths
	for _, n := range []int{0, 1, 8, 30, 40, 60, 100, 250} {
		for _, m := range []int{1, 2, 3, 4, 8, 15, 16, 17, 32, 64} {
			for _, b := range []string{"\x80", "\xbf", "\xc3", "\xe3\x81", "\xf0\x9f"} {
				run := strings.Repeat(b, m)
				a := strings.Repeat("a", n)
				out = append(out, prefix+valid+"/X:"+a+run, prefix+valid+"/"+run+a+":X", prefix+valid+"/E:"+a+run+a, prefix+valid+"/"+a+run)
			}
		}
	}
	// whole inputs, first tokens and later tokens that consist of (or begin with) long runs of one byte class
	for _, m := range []int{64, 127, 128, 129, 130, 200, 255, 256, 257, 300, 1000} {
		for _, b := range []string{"\x80", "\xbf", "\xc3", "\xff", "\x00", " ", "\xe3\x81\x82"} {
			run := strings.Repeat(b, m)
			out = append(out, run, run+"/"+valid, run+prefix+valid, prefix+run+"/"+valid, prefix+valid+"/"+run, run+":"+run, "CVSS:"+run, "CVSS:3."+run+"/"+valid)
		}
	}
	return out
}

// wrapInts are integers v for which v*k or v+k wraps around 2^64 / 2^63 for a small k (an index computed as
// v*width+column, a key packed by multiplication): (2^64)/k and (2^63)/k with their neighbourhoods, both signs.
var wrapInts = func() []int {
	var out []int
	for k := uint64(2); k <= 24; k++ {
		for _, base := range []uint64{^uint64(0) / k, (1 << 63) / k, (^uint64(0)/k + 1)} {
			for d := -40; d <= 40; d++ {
				u := base + uint64(int64(d))
				out = append(out, int(u), -int(u))
			}
		}
	}
	return out
}()

// namedOrders returns the token list in orders that other tools produce and that a random shuffle gives with
// probability 1/n! only: sorted by metric name, by whole token, reversed, by name length, the order of a JSON
// object's sorted keys, groups exchanged as blocks (base / temporal / environmental in all six arrangements),
// canonical order rotated.
func namedOrders(toks []string) [][]string {
	cp := func() []string { return append([]string(nil), toks...) }
	name := func(t string) string { n, _, _ := strings.Cut(t, ":"); return n }
	var out [][]string
	a := cp()
	sort.SliceStable(a, func(i, j int) bool { return name(a[i]) < name(a[j]) })
	out = append(out, a)
	b := cp()
	sort.Strings(b)
	out = append(out, b)
	c := cp()
	sort.SliceStable(c, func(i, j int) bool { return name(c[i]) > name(c[j]) })
	out = append(out, c)
	d := cp()
	for i, j := 0, len(d)-1; i < j; i, j = i+1, j-1 {
		d[i], d[j] = d[j], d[i]
	}
	out = append(out, d)
	e := cp()
	sort.SliceStable(e, func(i, j int) bool { return len(name(e[i])) < len(name(e[j])) })
	out = append(out, e)
	f := cp()
	sort.SliceStable(f, func(i, j int) bool { return strings.ToLower(name(f[i])) < strings.ToLower(name(f[j])) })
	out = append(out, f)
	// the order of the sorted keys of a JSON object that spells the metric names out (NVD cvssData)
	h := cp()
	sort.SliceStable(h, func(i, j int) bool { return longName[name(h[i])] < longName[name(h[j])] })
	out = append(out, h)
	// groups as blocks
	var g [3][]string
	for _, t := range toks {
		lvl := 0
		if i := spec.V3Index(name(t)); i >= spec.CR {
			lvl = 2
		} else if i >= spec.E {
			lvl = 1
		}
		g[lvl] = append(g[lvl], t)
	}
	for _, perm := range [][3]int{{0, 2, 1}, {1, 0, 2}, {1, 2, 0}, {2, 0, 1}, {2, 1, 0}} {
		var o []string
		for _, k := range perm {
			o = append(o, g[k]...)
		}
		out = append(out, o)
	}
	for _, k := range []int{1, len(toks) / 2, len(toks) - 1} {
		if k > 0 && k < len(toks) {
			out = append(out, append(append([]string(nil), toks[k:]...), toks[:k]...))
		}
	}
	return out
}

var longName = map[string]string{"AV": "attackVector", "AC": "attackComplexity", "PR": "privilegesRequired", "UI": "userInteraction", "S": "scope", "C": "confidentialityImpact", "I": "integrityImpact", "A": "availabilityImpact",
	"E": "exploitCodeMaturity", "RL": "remediationLevel", "RC": "reportConfidence", "CR": "confidentialityRequirement", "IR": "integrityRequirement", "AR": "availabilityRequirement",
	"MAV": "modifiedAttackVector", "MAC": "modifiedAttackComplexity", "MPR": "modifiedPrivilegesRequired", "MUI": "modifiedUserInteraction", "MS": "modifiedScope", "MC": "modifiedConfidentialityImpact", "MI": "modifiedIntegrityImpact", "MA": "modifiedAvailabilityImpact"}

// structuralEdits3 visits inputs in which a whole canonical block occurs twice, or in which the text of a
// canonical block is spliced into the string at a character position (inside another token).
func structuralEdits3(w *W, prefix string, toks []string, m *strMeta, visit strVisitor) {
	s := join3(prefix, toks)
	n := len(toks)
	for _, k := range []int{1, 2, 3, 8, 11, 14, n} {
		if k > n {
			continue
		}
		tail := strings.Join(toks[n-k:], "/")
		head := strings.Join(toks[:k], "/")
		for _, mid := range []string{"", "/E:P/RL:O/RC:C", "/no such thing ", "/ZZ:N", "/", "/AV:N"} {
			visit(w, s+mid+"/"+tail, m)          // the last k tokens once more, possibly after something else
			visit(w, s+"/"+tail+mid+"/"+tail, m) // ... twice more
			visit(w, s+mid+"/"+head, m)          // the first k tokens once more
		}
	}
	blocks := []string{"/E:X/RL:X/RC:X", "/CR:X/IR:X/AR:X/MAV:X/MAC:X/MPR:X/MUI:X/MS:X/MC:X/MI:X/MA:X", "/E:X", "/MS:X", "/AV:N/AC:L/PR:N/UI:N/S:U/C:H/I:H/A:H", "E:X/RL:X/RC:X/", "/E:X/RL:X/RC:X/", "CVSS:3.1/"}
	for _, b := range blocks[:2] { // the all-X block twice, with and without something in between
		for _, mid := range []string{"", "/E:P/RL:O/RC:C", "/no such thing ", "/ZZ:N", "/", "/AV:N", "/CR:H"} {
			visit(w, s+b+mid+b, m)
		}
	}
	for p := 0; p <= len(s); p++ {
		for _, b := range blocks {
			visit(w, s[:p]+b+s[p:], m)
		}
	}
}
