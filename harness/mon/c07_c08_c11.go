package mon

import (
	"fmt"
	"math/rand/v2"
	"sort"
	"strings"
	"sync"
	"sync/atomic"

	"verif/harness/lib"
	"verif/harness/spec"
)

func init() {
	register(&Monitor{ID: "C07", Title: "v3 decoders accept exactly the well-formed vectors of their level", Run: func(r *Run) int { return runAccept(r, false) }, Replay: replayAccept})
	register(&Monitor{ID: "C08", Title: "v2 decoders accept exactly the canonical vectors of their level", Run: func(r *Run) int { return runAccept(r, true) }, Replay: replayAccept})
	register(&Monitor{ID: "C11", Title: "every rejection reports exactly one sentinel naming a real defect", Run: runC11, Replay: replayC11})
}

// refAccept is the reference recogniser's verdict and defect set.
func refParse(v2 bool, s string, level int) (accept bool, defects spec.DefectSet) {
	if v2 {
		p := spec.Parse2(s, level)
		return p.Accept, p.Defects
	}
	p := spec.Parse3(s, level)
	return p.Accept, p.Defects
}

func kindOf(v2 bool, level int) lib.Kind {
	if v2 {
		return lib.Kind2(level)
	}
	return lib.Kind3(level)
}

// checkAccept compares one decoder's verdict with the reference recogniser.
func checkAccept(w *W, prop string, v2 bool, level int, s string, mode int) (accepted bool) {
	k := kindOf(v2, level)
	o, _, err, pan := lib.DecodeMode(k, s, mode)
	w.Eval(1)
	if pan != nil {
		w.Violate(Violation{Monitor: prop, Check: "Decode does not panic", Case: decodeCaseMode(k, s, mode), Observed: pan.Value, Note: clip(pan.Stack, 1500)})
		return false
	}
	ref, defects := refParse(v2, s, level)
	got := err == nil
	if got != ref {
		w.Violate(Violation{Monitor: prop, Check: "decoder accepts exactly the strings of its language", Case: decodeCaseMode(k, s, mode),
			Observed: fmt.Sprintf("accepted=%v err=%s", got, lib.ErrClass(err)), Expected: fmt.Sprintf("accepted=%v defects=%v", ref, defects.Names())})
	}
	if got && o.IsNil() {
		w.Violate(Violation{Monitor: prop, Check: "an accepted vector yields a metrics object", Case: decodeCaseMode(k, s, mode), Observed: "nil object, nil error"})
	}
	if !got && !o.IsNil() {
		w.Violate(Violation{Monitor: prop, Check: "a rejected string yields no metrics object", Case: decodeCaseMode(k, s, mode), Observed: "object and error " + lib.ErrClass(err)})
	}
	return got
}

func runAccept(r *Run, v2 bool) int {
	r.CleanOut()
	prop := "C07"
	if v2 {
		prop = "C08"
	}
	distinct := newHashBits()
	var acc, rej [3]atomic.Int64
	visit := func(w *W, s string, m *strMeta) {
		if m.Src != "random-bytes" {
			distinct.add(s)
		}
		w.Count("strings_from_" + m.Src)
		h := Hash(s)
		for level := 0; level < 3; level++ {
			mode := int((h >> uint(8*level)) % lib.NJudgedModes) // fresh constructor result / nil receiver / queried before Decode / by-value copy / embedded decoder / nil after a rejected nil decode
			if checkAccept(w, prop, v2, level, s, mode) {
				acc[level].Add(1)
				w.Count("accepted_from_" + m.Src)
			} else {
				rej[level].Add(1)
			}
		}
		// valid vectors interleaved through the whole run (a defect that strikes every Nth call, or after N calls,
		// then meets a vector that must be accepted)
		if h%8 == 0 && m.Src != "valid" {
			var vs string
			lv := int(h>>9) % 3
			rng := rand.New(rand.NewPCG(h, 11))
			if v2 {
				sv := seed2(rng, lv)
				vs = sv.String()
			} else {
				sv := seed3(rng, lv)
				vs = join3("CVSS:"+spec.V3Versions[sv.Ver], toks3(&sv, lv, rng, true))
			}
			for level := lv; level < 3; level++ {
				checkAccept(w, prop, v2, level, vs, int((h>>uint(3+level))%lib.NJudgedModes))
			}
			w.Count("interleaved_valid_vectors")
		}
		if h%200003 == 0 {
			a, d := refParse(v2, s, 2)
			w.Sample(map[string]interface{}{"string": clip(s, 160), "generator": m.Src, "reference_accepts_at_environmental_decoder": a, "defects": d.Names()})
		}
	}
	stringWorkload(r, v2, visit)
	// a few very long inputs
	w := r.NewW()
	for _, s := range hostileLong(v2, r.Pick(1, 8)) {
		visit(w, s, &strMeta{Src: "hostile", V2: v2, Sharp: -1})
	}
	w.Merge()
	r.Extra("accepted_per_decoder_level", []int64{acc[0].Load(), acc[1].Load(), acc[2].Load()})
	r.Extra("rejected_per_decoder_level", []int64{rej[0].Load(), rej[1].Load(), rej[2].Load()})
	ver := "v3"
	if v2 {
		ver = "v2"
	}
	return r.Finish(ver+" string workload, every string offered to all three decoders (receiver alternating between a fresh constructor result, a nil receiver and a constructor result whose query methods were called before Decode): valid vectors (all base combinations x seeded optional subsets x permutations; also offered to lower decoders), every single-character edit at every position of seed vectors over a 38-symbol alphabet, the token-level edit catalogue (drop/duplicate/move/swap/cross-metric values and names/malformed tokens/prefix catalogue/separators), single-classified-defect inputs, seeded double edits, all sequences of <= 2 (quick) / 3 (thorough) pool tokens appended to or inserted into a fixed vector, random byte / grammar-alphabet / token strings, multi-megabyte inputs; oracle = reference recogniser written from the property text; distinct non-trivial = distinct strings other than random bytes (30-bit hash bitmap, conservative)",
		false, distinct.count(), 1000000, 200000, TrustedBase)
}

func replayAccept(r *Run, c Case) {
	w := r.NewW()
	defer w.Merge()
	k := kindByName(c.Kind)
	s := c.GetInput()
	got := checkAccept(w, r.ID, k.V2(), k.Level(), s, caseMode(c))
	ref, d := refParse(k.V2(), s, k.Level())
	fmt.Printf("replay %s %q: library accepted=%v reference accepted=%v defects=%v\n", c.Kind, clip(s, 300), got, ref, d.Names())
}

// ---------------------------------------------------------------------------
// C11
// ---------------------------------------------------------------------------

var defectBySentinel = map[string]spec.Defect{
	"ErrInvalidVector": spec.DInvalidVector, "ErrNotSupportVer": spec.DNotSupportVer, "ErrNotSupportMetric": spec.DNotSupportMetric,
	"ErrSameMetric": spec.DSameMetric, "ErrInvalidValue": spec.DInvalidValue, "ErrNoBaseMetrics": spec.DNoBase,
	"ErrNoTemporalMetrics": spec.DNoTemporal, "ErrNoEnvironmentalMetrics": spec.DNoEnv, "ErrMisordered": spec.DMisordered,
}

type c11state struct {
	mu        sync.Mutex
	matrix    map[string]int64 // "class -> sentinel" counts
	perMetric map[string]int64
}

func (st *c11state) add(key string) {
	st.mu.Lock()
	st.matrix[key]++
	st.mu.Unlock()
}

// checkReject checks the error of one rejected decode.
func checkReject(w *W, st *c11state, v2 bool, level int, s string, m *strMeta, mode int) {
	k := kindOf(v2, level)
	o, _, err, pan := lib.DecodeMode(k, s, mode)
	_ = o
	w.Eval(1)
	if pan != nil {
		w.Count("decode_panicked")
		return
	}
	if err == nil {
		w.Count("accepted")
		if m.Sharp >= 0 && level >= m.SharpMin && level <= m.SharpMax {
			// a single-defect input was accepted: that is an acceptance (C07/C08) matter, counted here
			w.Count("sharp_input_accepted")
		}
		return
	}
	w.Count("rejected")
	matches := lib.Matches(err)
	c := decodeCaseMode(k, s, mode)
	if lib.Annotated(err) {
		w.Violate(Violation{Monitor: "C11", Check: "a rejection does not carry what a client attached to an earlier error value", Case: c, Observed: clip(lib.ErrText(err), 300)})
	}
	if Hash(s)%3 == 0 {
		defer func() { w.CountN("error_values_annotated_by_the_client_afterwards", lib.Annotate(err)) }()
	}
	if len(matches) != 1 {
		w.Violate(Violation{Monitor: "C11", Check: "a rejection matches exactly one exported sentinel under errors.Is", Case: c, Observed: fmt.Sprintf("%v (%s)", matches, lib.ErrText(err))})
		return
	}
	d, ok := defectBySentinel[matches[0]]
	if !ok {
		w.Violate(Violation{Monitor: "C11", Check: "a decoder rejection reports a vector sentinel", Case: c, Observed: matches[0]})
		return
	}
	_, present := refParse(v2, s, level)
	if !present.Has(d) {
		w.Violate(Violation{Monitor: "C11", Check: "the reported sentinel names a defect actually present in the input", Case: c, Observed: matches[0], Expected: present.Names()})
	}
	class := "unclassified(" + m.Src + ")"
	if m.Sharp >= 0 && level >= m.SharpMin && level <= m.SharpMax {
		class = "single:" + spec.Defect(m.Sharp).String()
		w.Count("sharp_checked")
		if int(d) != m.Sharp {
			w.Violate(Violation{Monitor: "C11", Check: "an input with exactly one kind of defect reports that kind", Case: c, Observed: matches[0], Expected: spec.Defect(m.Sharp).String()})
		}
		w.DistinctS("sharp_inputs", s+k.String())
		w.Count("sharp " + ver3or2(v2) + " " + spec.Defect(m.Sharp).String() + " @ " + m.SharpMetric)
	}
	ver := "v3"
	if v2 {
		ver = "v2"
	}
	w.Count(ver + " " + class + " -> " + matches[0])
}

func runC11(r *Run) int {
	r.CleanOut()
	st := &c11state{matrix: map[string]int64{}}
	distinct := newHashBits()
	for _, v2 := range []bool{false, true} {
		v2 := v2
		visit := func(w *W, s string, m *strMeta) {
			if m.Src == "valid" {
				// valid vectors matter here only at the lower decoders that must reject them
				if ok, _ := refParse(v2, s, 0); ok {
					return
				}
			}
			h := Hash(s)
			distinct.add(s)
			for level := 0; level < 3; level++ {
				checkReject(w, st, v2, level, s, m, int((h>>uint(8*level))%lib.NJudgedModes))
			}
			if h%300007 == 0 {
				_, d := refParse(v2, s, 1)
				_, err, _ := lib.Decode(kindOf(v2, 1), s, false)
				w.Sample(map[string]interface{}{"string": clip(s, 160), "generator": m.Src, "defects_present_at_temporal_decoder": d.Names(), "reported": lib.ErrClass(err)})
			}
		}
		stringWorkload(r, v2, visit)
	}
	// matrix: class x sentinel from the counters
	r.mu.Lock()
	matrix := map[string]int64{}
	var keys []string
	for k, v := range r.counters {
		if len(k) > 3 && (k[:3] == "v3 " || k[:3] == "v2 ") {
			matrix[k] = v
			keys = append(keys, k)
		}
	}
	for _, k := range keys {
		delete(r.counters, k)
	}
	r.mu.Unlock()
	sort.Strings(keys)
	r.Extra("edit_class_x_sentinel_matrix", matrix)
	// per metric x class coverage of the sharp catalogue
	r.mu.Lock()
	perMetric := map[string]int64{}
	for k, v := range r.counters {
		if strings.HasPrefix(k, "sharp v") {
			perMetric[strings.TrimPrefix(k, "sharp ")] = v
			delete(r.counters, k)
		}
	}
	r.mu.Unlock()
	r.Extra("single_defect_inputs_per_class_and_metric", perMetric)
	if r.Counter("sharp_input_accepted") > 0 {
		r.Note("%d single-defect inputs were accepted by a decoder (acceptance is judged by C07/C08)", r.Counter("sharp_input_accepted"))
	}
	return r.Finish("every rejected string of the C07 and C08 workloads at all six decoders: exactly one of the 11 sentinels matches under errors.Is, it is a vector sentinel, and it is in the set of defects the reference classifier finds in the string (generous where the statement is ambiguous); sharp part: inputs built from a valid vector by one classified edit (unknown value code, repeated metric, missing base metric, malformed token, malformed prefix, other version, name outside the level, (v2) incomplete group, (v2) permuted tokens) for every metric/position must report exactly that class; distinct non-trivial = distinct rejected-side strings (30-bit hash bitmap, conservative)",
		false, distinct.count(), 1000000, 200000, TrustedBase)
}

func replayC11(r *Run, c Case) {
	w := r.NewW()
	defer w.Merge()
	k := kindByName(c.Kind)
	s := c.GetInput()
	st := &c11state{matrix: map[string]int64{}}
	m := &strMeta{Src: "replay", Sharp: -1}
	if v, ok := c.Args["sharp"]; ok {
		for d := spec.Defect(0); d < spec.NDefects; d++ {
			if d.String() == v {
				m.Sharp, m.SharpMin, m.SharpMax = int(d), 0, 2
			}
		}
	}
	checkReject(w, st, k.V2(), k.Level(), s, m, caseMode(c))
	_, _, err, _ := lib.DecodeMode(k, s, caseMode(c))
	_, d := refParse(k.V2(), s, k.Level())
	fmt.Printf("replay %s %q: reported %s; defects present %v\n", c.Kind, clip(s, 300), lib.ErrClass(err), d.Names())
}

func ver3or2(v2 bool) string {
	if v2 {
		return "v2"
	}
	return "v3"
}

// hostileLong returns a few very long inputs (n controls how many megabytes).
func hostileLong(v2 bool, mb int) []string {
	rep := func(s string, n int) string {
		b := make([]byte, 0, len(s)*n)
		for i := 0; i < n; i++ {
			b = append(b, s...)
		}
		return string(b)
	}
	n := mb << 20
	p := "CVSS:3.1/"
	valid := "AV:N/AC:L/PR:N/UI:N/S:U/C:H/I:H/A:H"
	if v2 {
		p = ""
		valid = "AV:N/AC:L/Au:N/C:P/I:P/A:P"
	}
	return []string{
		p + rep("AV:N/", n/5),
		p + valid + rep("/", n),
		p + valid + "/" + rep(":", n),
		p + valid + "/" + rep("ZZ:N/", n/5),
		p + valid + "/E:" + rep("X", n),
		rep("A", n),
		p + valid + rep("/E:X", n/4),
		rep("CVSS:3.1/", n/9),
		p + rep(valid+"/", n/len(valid)),
	}
}
