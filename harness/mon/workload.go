package mon

import (
	"strings"
	"sync/atomic"

	"verif/harness/spec"
)

// hashBits is a conservative distinct counter: a bitmap indexed by 30 bits of
// a 64-bit string hash.  Collisions can only lower the count.
type hashBits struct{ b *bitset }

func newHashBits() *hashBits { return &hashBits{newBitset(1 << 30)} }
func (h *hashBits) add(s string) {
	x := Hash(s)
	h.b.set(int((x ^ x>>31) & (1<<30 - 1)))
}
func (h *hashBits) count() int64 { return h.b.count() }

// wlStats counts the strings each generator produced.
type wlStats struct {
	bySrc [16]atomic.Int64
}

var wlSrcNames = []string{"valid", "valid-lower-decoder", "char-edit", "token-edit", "sharp", "double-edit", "token-exhaustive", "random-bytes", "random-grammar", "random-tokens", "hostile"}

// stringWorkload drives the whole string workload of one version through visit.
// Phases are seed-determined; sizes depend on the tier only.
func stringWorkload(r *Run, v2 bool, visit strVisitor) {
	nSeedChar := r.Pick(40, 250) // seeds per level for the exhaustive character-edit neighbourhood
	nSeedTok := r.Pick(120, 600) // seeds per level for token-level neighbourhood and sharp classes
	nDouble := r.Pick(200000, 20000000)
	nRandom := r.Pick(150000, 5000000)
	depth := r.Pick(2, 3)

	// 1. valid side
	if !v2 {
		variants := r.Pick(2, 10)
		r.Parallel(2*nBase3, 16, func(w *W, idx int) {
			rng := r.Rng(uint64(idx) + 1)
			m := &strMeta{Src: "valid", Sharp: -1}
			for L := 0; L < 3; L++ {
				for k := 0; k < variants; k++ {
					v := newV3(idx/nBase3, idx%nBase3)
					for mi := spec.E; mi < spec.V3LevelEnd(L); mi++ {
						if rng.IntN(3) > 0 {
							v.M[mi] = int8(rng.IntN(len(spec.V3Metrics[mi].Codes)))
						}
					}
					visit(w, join3("CVSS:"+spec.V3Versions[v.Ver], toks3(&v, L, rng, k > 0)), m)
					if k == 0 && idx%16 == 3 {
						// the same metrics in the orders other tools write (sorted by name, by token, reversed, groups
						// exchanged as blocks ...), with every Not Defined metric of the level spelled as well
						full := v
						for mi := spec.E; mi < spec.V3LevelEnd(L); mi++ {
							if full.M[mi] < 0 {
								full.M[mi] = 0
							}
						}
						for _, vv := range []*spec.V3{&v, &full} {
							for _, o := range namedOrders(vv.Tokens(L)) {
								visit(w, join3("CVSS:"+spec.V3Versions[v.Ver], o), m)
							}
						}
					}
				}
			}
		})
	} else {
		r.Parallel(nBase2*101, 32, func(w *W, idx int) {
			rng := r.Rng(uint64(idx) + 1)
			m := &strMeta{Src: "valid", V2: true, Sharp: -1}
			var v spec.V2
			base2(&v, idx/101)
			if ti := idx%101 - 1; ti >= 0 {
				temporal2(&v, ti)
			}
			visit(w, v.String(), m)
			env2(&v, rng.IntN(nEnv2))
			visit(w, v.String(), m)
		})
	}
	r.Phase("valid side")

	// 2. single-edit neighbourhoods
	r.Parallel(3*nSeedTok, 1, func(w *W, i int) {
		L := i % 3
		rng := r.Rng(uint64(i) + 1<<32)
		if !v2 {
			v := seed3(rng, L)
			shuffle := rng.IntN(2) == 0
			if i%4 == 1 {
				// a fully specified vector: every metric of the level written (Not Defined spelled X), canonical order
				for m := spec.E; m < spec.V3LevelEnd(L); m++ {
					if v.M[m] < 0 {
						v.M[m] = int8(rng.IntN(len(spec.V3Metrics[m].Codes)))
					}
				}
				shuffle = false
			}
			toks := toks3(&v, L, rng, shuffle)
			prefix := "CVSS:" + spec.V3Versions[v.Ver]
			if i < 3*nSeedChar {
				charEdits(w, join3(prefix, toks), &strMeta{Src: "char-edit"}, visit)
			}
			tokenEdits3(w, prefix, toks, &strMeta{Src: "token-edit"}, visit)
			sharp3(w, &v, L, toks, rng, visit)
		} else {
			v := seed2(rng, L)
			if i < 3*nSeedChar {
				charEdits(w, v.String(), &strMeta{Src: "char-edit", V2: true}, visit)
			}
			tokenEdits2(w, strings.Split(v.String(), "/"), &strMeta{Src: "token-edit", V2: true}, visit)
			sharp2(w, &v, L, visit)
		}
	})
	r.Phase("single-edit neighbourhoods + sharp classes")

	// 3. double and triple edits (the last fifth under forced garbage collections)
	doubleEdits := func(lo, hi int) {
		r.Parallel(hi-lo, 4, func(w *W, i int) { doubleEditBlock(r, w, lo+i, v2, visit) })
	}
	doubleEdits(0, nDouble/100*4/5)
	GCStress(func() { doubleEdits(nDouble/100*4/5, nDouble/100) })
	r.Phase("double/triple edits")
	// 4. token-level exhaustive: all sequences of <= depth pool tokens appended to / inserted into a fixed valid vector
	pool := tokenPool(v2)
	fixed := []string{"AV:N", "AC:L", "PR:N", "UI:N", "S:U", "C:H", "I:H", "A:H"}
	prefix := "CVSS:3.1"
	if v2 {
		fixed = []string{"AV:N", "AC:L", "Au:N", "C:P", "I:P", "A:P"}
		prefix = ""
	}
	total := 1
	for d := 0; d < depth; d++ {
		total *= len(pool) + 1
	}
	r.Parallel(total, 256, func(w *W, idx int) {
		m := &strMeta{Src: "token-exhaustive", V2: v2, Sharp: -1}
		var seq []string
		x := idx
		for d := 0; d < depth; d++ {
			k := x % (len(pool) + 1)
			x /= len(pool) + 1
			if k < len(pool) {
				seq = append(seq, pool[k])
			}
		}
		app := append(append([]string(nil), fixed...), seq...)
		ins := append(append(append([]string(nil), fixed[:3]...), seq...), fixed[3:]...)
		if v2 {
			visit(w, strings.Join(app, "/"), m)
			visit(w, strings.Join(ins, "/"), m)
		} else {
			visit(w, join3(prefix, app), m)
			visit(w, join3(prefix, ins), m)
		}
	})
	r.Phase("token-level exhaustive")

	// 4b. count / length thresholds
	ls := lengthSweep(v2, r.Thorough())
	r.Parallel(len(ls), 8, func(w *W, i int) {
		visit(w, ls[i], &strMeta{Src: "length-sweep", V2: v2, Sharp: -1})
	})
	r.Phase("length sweep")

	// 5. arbitrary strings
	r.Parallel(nRandom/100, 4, func(w *W, blk int) {
		rng := r.Rng(uint64(blk) + 1<<34)
		for k := 0; k < 100; k++ {
			switch k % 3 {
			case 0:
				visit(w, randomBytes(rng, 64), &strMeta{Src: "random-bytes", V2: v2, Sharp: -1})
			case 1:
				visit(w, randomGrammar(rng, 64), &strMeta{Src: "random-grammar", V2: v2, Sharp: -1})
			default:
				p := ""
				if !v2 && rng.IntN(4) > 0 {
					p = "CVSS:3." + string(rune('0'+rng.IntN(3)))
				}
				visit(w, randomTokens(rng, pool, 16, p), &strMeta{Src: "random-tokens", V2: v2, Sharp: -1})
			}
		}
	})
	r.Phase("arbitrary strings")
}

// randomEdit applies one random character- or token-level edit.
func randomEdit(rng interface{ IntN(int) int }, s string, v2 bool) string {
	switch rng.IntN(6) {
	case 0: // delete char
		if len(s) > 0 {
			p := rng.IntN(len(s))
			return s[:p] + s[p+1:]
		}
	case 1: // insert char
		p := rng.IntN(len(s) + 1)
		return s[:p] + editAlphabet[rng.IntN(len(editAlphabet))] + s[p:]
	case 2: // replace char
		if len(s) > 0 {
			p := rng.IntN(len(s))
			return s[:p] + editAlphabet[rng.IntN(len(editAlphabet))] + s[p+1:]
		}
	case 3: // drop token
		t := strings.Split(s, "/")
		if len(t) > 1 {
			return strings.Join(without(t, rng.IntN(len(t))), "/")
		}
	case 4: // duplicate / move token
		t := strings.Split(s, "/")
		i := rng.IntN(len(t))
		j := rng.IntN(len(t) + 1)
		if rng.IntN(2) == 0 {
			return strings.Join(inserted(t, j, t[i]), "/")
		}
		tok := t[i]
		t = without(t, i)
		if j > len(t) {
			j = len(t)
		}
		return strings.Join(inserted(t, j, tok), "/")
	default: // replace a token's value or name
		t := strings.Split(s, "/")
		i := rng.IntN(len(t))
		name, val, ok := strings.Cut(t[i], ":")
		if ok {
			if rng.IntN(2) == 0 {
				val = allCodes[rng.IntN(len(allCodes))]
			} else if v2 {
				name = allNames2[rng.IntN(len(allNames2))]
			} else {
				name = allNames3[rng.IntN(len(allNames3))]
			}
			t[i] = name + ":" + val
			return strings.Join(t, "/")
		}
	}
	return s + "/"
}

// doubleEditBlock visits 100 seed vectors with two (or, for every fourth, three) random edits applied.
func doubleEditBlock(r *Run, w *W, blk int, v2 bool, visit strVisitor) {
	rng := r.Rng(uint64(blk) + 1<<33)
	m := &strMeta{Src: "double-edit", V2: v2, Sharp: -1}
	for k := 0; k < 100; k++ {
		var s string
		L := rng.IntN(3)
		if !v2 {
			v := seed3(rng, L)
			s = join3("CVSS:"+spec.V3Versions[v.Ver], toks3(&v, L, rng, rng.IntN(2) == 0))
		} else {
			v := seed2(rng, L)
			s = v.String()
		}
		n := 2
		if k%4 == 3 {
			n = 3
		}
		for e := 0; e < n; e++ {
			s = randomEdit(rng, s, v2)
		}
		visit(w, s, m)
	}
}
