package mon

import (
	"bytes"
	"context"
	"encoding/json"
	"fmt"
	"github.com/goark/go-cvss/v3/report"
	"io"
	"math/rand/v2"
	"os"
	"os/exec"
	"path/filepath"
	"runtime"
	"sort"
	"strconv"
	"strings"
	"sync"
	"time"

	"verif/harness/lib"
	"verif/harness/spec"
)

func init() {
	register(&Monitor{ID: "C16", Title: "concurrent use is data-race free and equals sequential use", Run: runC16, Replay: replayC16})
	internals["c16child"] = c16child
}

// kinds of operations recorded in the history
const (
	kScore           = 0
	kSeverity        = 1
	kGetError        = 2
	kEncode          = 3
	kString          = 4
	kBaseMetrics     = 5
	kTemporalMetrics = 6
	kIsEmpty         = 7
	kReportNew       = 8
	kExportShared    = 9 // template export on a SHARED report object
	nSharedKinds     = 10
	kDecodeOwn       = 10 // operations on own objects
	kExportOwn       = 11
	kNames           = 12
	nAllKinds        = 13
)

var c16KindNames = []string{"Score", "Severity", "GetError", "Encode", "String", "BaseMetrics", "TemporalMetrics", "IsEmpty", "report.New", "Export(shared report)", "Decode(own)", "Export(own report)", "names.*"}

type c16event struct {
	kind, obj int32
	t0, t1    int64
}

// c16op is one seed-determined operation.
type c16op struct {
	u    int // unique number of the operation within the child process
	kind int
	obj  int // index of the shared object / shared report
	p    int
	src  objSource // for own decodes
}

type c16shared struct {
	opts    []report.ReportOptionsFunc // one backing array with spare capacity, sub-sliced by all goroutines
	objs    []lib.Obj
	srcs    []objSource
	reports []lib.Report // shared reports (v3 objects only)
	repObj  []int
	tmpls   []string
}

var c16templates = []string{
	"{{.Version}} {{.Vector}} {{.SeverityValue}}",
	"{{.AVName}}: {{.AVValue}} / {{.CName}}: {{.CValue}} {{if eq .SeverityValue \"High\"}}!{{end}}",
	"{{range $i, $c := .Vector}}{{end}}{{len .Vector}} {{printf \"%q\" .BaseScore}}",
	"{{.NoSuchField}}",
	"{{if}}",
	strings.Repeat("{{.BaseScore}}|", 50),
	// templates that define equally named blocks with different bodies, and one that only references the name
	"{{define \"row\"}}| {{.}} |{{end}}{{define \"footer\"}}-- md{{end}}{{template \"row\" .AVValue}}{{template \"row\" .BaseScore}}{{template \"footer\"}}",
	"{{define \"row\"}}{{.}},{{end}}{{define \"footer\"}}# csv{{end}}{{template \"row\" .AVValue}}{{template \"row\" .Vector}}{{template \"footer\"}}",
	"{{template \"row\" .SeverityValue}}",
	"{{block \"row\" .Vector}}<{{.}}>{{end}} {{.SeverityValue}}",
	// decomposed characters (not NFC-normal) in the literal text and right after an action
	"か\u3099 e\u0301 {{.SeverityValue}}\u0301 \u212b {{.Vector}}",
}

func buildShared(seed int64) *c16shared {
	rng := rand.New(rand.NewPCG(uint64(seed)*31+7, 0xC16))

	sh := &c16shared{tmpls: c16templates, opts: lib.SharedOptions()}
	// 3 shared objects per decoder kind: two decoded, one invalid (fresh constructor)
	for k := lib.Kind(0); k < lib.NKinds; k++ {
		for j := 0; j < 3; j++ {
			var src objSource
			for {
				src = randomSource(rng)
				if src.Kind == k && ((j < 2 && src.Mode == 0) || (j == 2 && src.Mode != 0)) {
					break
				}
			}
			sh.srcs = append(sh.srcs, src)
			sh.objs = append(sh.objs, src.make())
		}
	}
	for i, o := range sh.objs {
		if !o.Kind.V2() && sh.srcs[i].Mode == 0 {
			// the shared objects themselves stay untouched until the goroutines are released (their first
			// query must happen concurrently); shared reports are built from twins
			twin := sh.srcs[i].make()
			for _, lang := range []string{"en", "ja"} {
				rep, pan := lib.NewReport(twin, tagOf(lang), true)
				if pan == nil {
					sh.reports = append(sh.reports, rep)
					sh.repObj = append(sh.repObj, i)
				}
			}
		}
	}
	return sh
}

func c16genOp(rng *rand.Rand, sh *c16shared) c16op {
	switch x := rng.IntN(100); {
	case x < 62: // query on a shared object
		return c16op{kind: rng.IntN(kReportNew + 1), obj: rng.IntN(len(sh.objs)), p: rng.IntN(len(reportLangs))}
	case x < 74:
		return c16op{kind: kExportShared, obj: rng.IntN(len(sh.reports)), p: rng.IntN(3 * len(sh.tmpls))}
	case x < 86:
		return c16op{kind: kDecodeOwn, src: randomSource(rng), p: rng.IntN(nQueryOps)}
	case x < 93:
		return c16op{kind: kExportOwn, obj: rng.IntN(len(sh.objs)), p: rng.IntN(3 * len(sh.tmpls))}
	default:
		return c16op{kind: kNames, p: rng.IntN(1 << 20)}
	}
}

// c16exec executes op and renders its result.
func c16exec(op *c16op, sh *c16shared) string {
	switch op.kind {
	case kScore, kSeverity, kGetError, kEncode, kString, kBaseMetrics, kTemporalMetrics, kIsEmpty:
		return doOp(sh.objs[op.obj], op.kind, op.p)
	case kReportNew:
		o := sh.objs[op.obj]
		if op.p%3 == 0 && !o.Kind.V2() && !o.IsNil() {
			// options passed as a sub-slice (len 1, spare capacity) of an array shared by all goroutines
			rep, pan := lib.NewReportOpts(o, sh.opts, op.p)
			if pan != nil {
				return "report panicked: " + pan.Value
			}
			got, _ := rep.Flatten()
			return fmt.Sprint(lib.SharedOptLang(op.p), got["SeverityName"], got["Vector"], got["AVName"], got["BaseReport.AVName"], got["TemporalReport.BaseReport.AVName"], got["SeverityValue"])
		}
		return doOp(o, 8, op.p)
	case kExportShared:
		return c16export(sh.reports[op.obj], sh, op.p, op.u)
	case kDecodeOwn:
		o := op.src.make()
		_, err, pan := lib.Decode(op.src.Kind, op.src.Input, op.p%2 == 0)
		return doOp(o, op.p%nQueryOps, op.p) + "|" + lib.ErrClass(err) + fmt.Sprint(pan != nil) + "|" + obsString(o)
	case kExportOwn:
		o := sh.objs[op.obj]
		if o.Kind.V2() || o.IsNil() {
			return "n/a"
		}
		rep, pan := lib.NewReport(o, tagOf(reportLangs[op.p%len(reportLangs)]), true)
		if pan != nil {
			return "report panicked"
		}
		return c16export(rep, sh, op.p, op.u)
	default:
		i := op.p % len(lib.ValueFns)
		j := op.p / 64 % len(lib.TitleFns)
		lang := tagOf(reportLangs[op.p%len(reportLangs)])
		return lib.ValueFns[i].F(op.p%7, lang) + "|" + lib.TitleFns[j].F(lang)
	}
}

// c16export exports template p%len through the string path, a reader, or a reader that fails half-way.
func c16export(rep lib.Report, sh *c16shared, p int, u int) string {
	t := sh.tmpls[p%len(sh.tmpls)]
	if u%5 == 0 && p%len(sh.tmpls) < 3 {
		// a template text never seen before: distinct texts accumulate in the process.  u is assigned per
		// operation when the lists are generated - the goroutines share no counter (an atomic would add
		// happens-before edges between them and could hide races).
		t += fmt.Sprintf("{{/* %d */}}", u)
	}
	switch u % 11 { // the same template with other white space around it, exported by several goroutines at once
	case 1:
		t = "\n" + t
	case 2:
		t += " \n"
	case 3:
		t = " \t" + t + "\n\n"
	case 4:
		t = "\ufeff" + t
	}
	switch p / len(sh.tmpls) {
	case 0:
		out, isNil, err, pan := rep.ExportWithString(t)
		return fmt.Sprint(out, isNil, lib.ErrClass(err), pan != nil)
	case 1:
		out, isNil, err, pan := rep.ExportWith(&chunkReader{data: []byte(t), rng: rand.New(rand.NewPCG(uint64(p), 7))})
		return fmt.Sprint(out, isNil, lib.ErrClass(err), pan != nil)
	default:
		out, isNil, err, pan := rep.ExportWith(&failAfter{data: []byte(t), n: len(t) / 2})
		return fmt.Sprint(out, isNil, lib.ErrClass(err), pan != nil)
	}
}

type c16result struct {
	Ops        int64            `json:"ops"`
	Goroutines int              `json:"goroutines"`
	Procs      int              `json:"gomaxprocs"`
	Mismatches []string         `json:"mismatches"`
	Overlap    map[string]int64 `json:"overlap"`
	ColdFirst  int              `json:"cold_first_use_goroutines"`
	SeqDigest  uint64           `json:"sequential_digest"`
	KindCounts map[string]int64 `json:"kind_counts"`
	Distinct   int              `json:"distinct_ops"`
	SampleHist []string         `json:"sample_history"`
}

// c16child: args = seed round G opsPerGoroutine.  GOMAXPROCS and GORACE come from the environment.
func c16child(args []string, _ int64, _ string) int {
	seed, _ := strconv.ParseInt(args[0], 10, 64)
	round, _ := strconv.Atoi(args[1])
	G, _ := strconv.Atoi(args[2])
	nOps, _ := strconv.Atoi(args[3])
	res := c16result{Goroutines: G, Procs: runtime.GOMAXPROCS(0), Overlap: map[string]int64{}, KindCounts: map[string]int64{}}

	// 1. cold start: the first use of the library in this process happens concurrently
	{
		start := make(chan struct{})
		var wg sync.WaitGroup
		coldOut := make([]string, G)
		for g := 0; g < G; g++ {
			wg.Add(1)
			go func(g int) {
				defer wg.Done()
				rng := rand.New(rand.NewPCG(uint64(seed)+uint64(g)*977, 0xC01D))
				src := randomSource(rng)
				<-start
				o := src.make()
				s := obsVector(o)
				s += lib.ValueFns[g%len(lib.ValueFns)].F(g%5, tagOf("ja")) + lib.TitleFns[g%len(lib.TitleFns)].F(tagOf("fr"))
				coldOut[g] = s
			}(g)
		}
		close(start)
		wg.Wait()
		res.ColdFirst = G
		for g := 0; g < G; g++ {
			rng := rand.New(rand.NewPCG(uint64(seed)+uint64(g)*977, 0xC01D))
			src := randomSource(rng)
			want := obsVector(src.make()) + lib.ValueFns[g%len(lib.ValueFns)].F(g%5, tagOf("ja")) + lib.TitleFns[g%len(lib.TitleFns)].F(tagOf("fr"))
			if want != coldOut[g] {
				res.Mismatches = append(res.Mismatches, fmt.Sprintf("cold first use by goroutine %d on %s %q: concurrent %q sequential %q", g, src.Kind, src.Input, clip(coldOut[g], 300), clip(want, 300)))
			}
		}
	}

	// 1b. many exports inside template reading at the same time: 96 goroutines export through readers that
	// deliver their template in pieces with pauses (a slow source), so that all of them are between the first
	// and the last Read at once.  The pauses are sleeps: the goroutines share no synchronisation.
	{
		const N = 96
		sh := buildShared(seed*977 + int64(round))
		var reps []lib.Report
		for _, o := range sh.objs {
			if !o.Kind.V2() && !o.IsNil() {
				if rep, pan := lib.NewReport(o, tagOf("en"), true); pan == nil {
					reps = append(reps, rep)
				}
			}
		}
		if len(reps) > 0 {
			out := make([]string, N)
			tmpl := func(g int) string {
				return fmt.Sprintf("H%02d|{{.BaseScore}} {{.SeverityValue}}|%s", g, strings.Repeat(string(rune('a'+g%26)), 40+g))
			}
			start := make(chan struct{})
			var wg sync.WaitGroup
			for g := 0; g < N; g++ {
				wg.Add(1)
				go func(g int) {
					defer wg.Done()
					<-start
					o, isNil, err, pan := reps[g%len(reps)].ExportWith(&slowReader{data: []byte(tmpl(g)), pieces: 3 + g%3, pause: 3 * time.Millisecond})
					out[g] = fmt.Sprint(o, isNil, lib.ErrClass(err), pan != nil)
				}(g)
			}
			close(start)
			wg.Wait()
			for g := 0; g < N; g++ {
				o, isNil, err, pan := reps[g%len(reps)].ExportWithString(tmpl(g))
				if want := fmt.Sprint(o, isNil, lib.ErrClass(err), pan != nil); want != out[g] {
					res.Mismatches = append(res.Mismatches, fmt.Sprintf("%d exports reading their templates from slow readers at once: goroutine %d got %q, sequential string export gives %q", N, g, clip(out[g], 200), clip(want, 200)))
				}
				res.Ops++
			}
			res.KindCounts["ExportWith (96 slow readers at once)"] += N
		}
	}

	// 1c. one shared client-assembled report whose fields hold templates that export the report again (a
	// legitimately nested export, a dozen levels deep), exported by 48 goroutines at once: read-only use
	{
		rep, tmpl := lib.ChainedReport(12)
		want, wantNil, werr, wpan := rep.ExportWithString(tmpl)
		ref := fmt.Sprint(want, wantNil, lib.ErrClass(werr), wpan != nil)
		const N, each = 48, 25
		bad := make([]string, N)
		start := make(chan struct{})
		var wg sync.WaitGroup
		for g := 0; g < N; g++ {
			wg.Add(1)
			go func(g int) {
				defer wg.Done()
				<-start
				for i := 0; i < each; i++ {
					o, isNil, err, pan := rep.ExportWithString(tmpl)
					if got := fmt.Sprint(o, isNil, lib.ErrClass(err), pan != nil); got != ref && bad[g] == "" {
						bad[g] = got
					}
				}
			}(g)
		}
		close(start)
		wg.Wait()
		for g := 0; g < N; g++ {
			if bad[g] != "" {
				res.Mismatches = append(res.Mismatches, fmt.Sprintf("nested export of one shared report by %d goroutines: goroutine %d got %q, sequentially %q", N, g, clip(bad[g], 200), clip(ref, 200)))
			}
			res.Ops += each
		}
		res.KindCounts["ExportWithString (nested 12 levels, shared report, 48 goroutines)"] += N * each
	}

	// 2./3. phases: fresh (never queried) shared objects, the concurrent phase, then the sequential re-execution
	const perPhase = 250
	seqAll := uint64(1469598103934665603)
	distinct := map[uint64]struct{}{}
	var allEvents [][]c16event
	t0 := time.Now()
	for phase := 0; phase*perPhase < nOps; phase++ {
		sh := buildShared(seed*131 + int64(round)*17 + int64(phase))
		n := min(perPhase, nOps-phase*perPhase)
		lists := make([][]c16op, G)
		for g := 0; g < G; g++ {
			rng := rand.New(rand.NewPCG(uint64(seed)*1000003+uint64(round)*1009+uint64(g), 0xC16+uint64(phase)))
			lists[g] = make([]c16op, n)
			for i := range lists[g] {
				lists[g][i] = c16genOp(rng, sh)
				lists[g][i].u = phase*10000000 + g*100000 + i
			}
		}
		results := make([][]uint64, G)
		events := make([][]c16event, G)
		start := make(chan struct{})
		var wg sync.WaitGroup
		for g := 0; g < G; g++ {
			wg.Add(1)
			results[g] = make([]uint64, n)
			events[g] = make([]c16event, 0, n)
			go func(g int) {
				defer wg.Done()
				<-start
				// no synchronisation with other goroutines from here on: per-goroutine state only
				for i := range lists[g] {
					op := &lists[g][i]
					a := int64(time.Since(t0))
					s := c16exec(op, sh)
					b := int64(time.Since(t0))
					results[g][i] = Hash(s)
					if op.kind < nSharedKinds {
						obj := op.obj + phase*10000
						if op.kind == kExportShared {
							obj += 5000
						}
						events[g] = append(events[g], c16event{int32(op.kind), int32(obj), a, b})
					}
				}
			}(g)
		}
		close(start)
		wg.Wait()
		allEvents = append(allEvents, events...)
		// sequential re-execution of the same operations
		for g := 0; g < G; g++ {
			for i := range lists[g] {
				op := &lists[g][i]
				s := c16exec(op, sh)
				h := Hash(s)
				seqAll = seqAll*1099511628211 ^ h
				distinct[Hash(fmt.Sprint(op.kind, op.obj, op.p, op.src, phase))] = struct{}{}
				res.KindCounts[c16KindNames[op.kind]]++
				if h != results[g][i] && len(res.Mismatches) < 20 {
					res.Mismatches = append(res.Mismatches, fmt.Sprintf("phase %d goroutine %d op #%d %s obj=%d (%s %q) p=%d src=%v: concurrent result differs from sequential result %q", phase, g, i, c16KindNames[op.kind], op.obj, sh.srcs[op.obj%len(sh.srcs)].Kind, sh.srcs[op.obj%len(sh.srcs)].Input, op.p, op.src, clip(s, 300)))
				}
				res.Ops++
			}
		}
	}
	res.SeqDigest = seqAll
	res.Distinct = len(distinct)
	events := allEvents

	// 4. overlap matrix over the recorded history (same shared object, intervals intersect)
	byObj := map[int32][]c16event{}
	for g := range events {
		for _, e := range events[g] {
			byObj[e.obj] = append(byObj[e.obj], e)
		}
	}
	for _, evs := range byObj {
		sort.Slice(evs, func(i, j int) bool { return evs[i].t0 < evs[j].t0 })
		var active []c16event
		for _, e := range evs {
			k := 0
			for _, a := range active {
				if a.t1 >= e.t0 {
					active[k] = a
					k++
				}
			}
			active = active[:k]
			for _, a := range active {
				x, y := a.kind, e.kind
				if x > y {
					x, y = y, x
				}
				res.Overlap[c16KindNames[x]+" || "+c16KindNames[y]]++
			}
			active = append(active, e)
		}
	}
	if len(events) > 0 && len(events[0]) > 3 {
		for _, e := range events[0][:3] {
			res.SampleHist = append(res.SampleHist, fmt.Sprintf("g0 %s obj=%d call=%dns return=%dns", c16KindNames[e.kind], e.obj, e.t0, e.t1))
		}
	}
	b, _ := json.Marshal(res)
	fmt.Println(string(b))
	return 0
}

// raceBlocks parses race-detector log files and returns the de-duplicated reports.
type raceReport struct {
	Key   string `json:"entry_point_pair"`
	Count int    `json:"count"`
	First string `json:"first_report"`
	InLib bool   `json:"library_frames"`
}

func parseRaceLogs(glob string) (total int, reports []raceReport) {
	files, _ := filepath.Glob(glob)
	byKey := map[string]*raceReport{}
	for _, f := range files {
		b, err := os.ReadFile(f)
		if err != nil {
			continue
		}
		for _, blk := range strings.Split(string(b), "==================") {
			if !strings.Contains(blk, "WARNING: DATA RACE") {
				continue
			}
			total++
			// stacks are separated by blank lines; the first two are the conflicting accesses
			var entries []string
			inLib := false
			for _, st := range strings.Split(blk, "\n\n") {
				if !strings.Contains(st, " by goroutine ") && !strings.Contains(st, " by main goroutine") {
					continue
				}
				outer := ""
				for _, line := range strings.Split(st, "\n") {
					t := strings.TrimSpace(line)
					if strings.HasPrefix(t, "github.com/goark/go-cvss") {
						outer = t // the last one seen is the outermost library frame
						inLib = true
					}
				}
				if outer == "" {
					outer = "(no library frame)"
				}
				if i := strings.Index(outer, "("); i > 0 {
					outer = outer[:i]
				}
				entries = append(entries, outer)
				if len(entries) == 2 {
					break
				}
			}
			sort.Strings(entries)
			key := strings.Join(entries, " <-> ")
			r := byKey[key]
			if r == nil {
				r = &raceReport{Key: key, First: clip(strings.TrimSpace(blk), 3000), InLib: inLib}
				byKey[key] = r
			}
			r.Count++
		}
	}
	for _, r := range byKey {
		reports = append(reports, *r)
	}
	sort.Slice(reports, func(i, j int) bool { return reports[i].Key < reports[j].Key })
	return
}

func runC16(r *Run) int {
	r.CleanOut()
	old, _ := filepath.Glob(filepath.Join(r.OutDir, "race-*"))
	for _, f := range old {
		os.Remove(f)
	}
	monBin := childBinary()
	type cfg struct{ procs, G, ops int }
	cfgs := []cfg{{2, 8, 6000}, {4, 32, 2500}, {16, 64, 1500}}
	maxRounds := r.Pick(6, 24)
	minRounds := r.Pick(3, 20)
	const overlapFloor = 5
	overlap := map[string]int64{}
	kinds := map[string]int64{}
	var ops int64
	var distinct int64
	var children, cold int
	var samples []string
	raceEnabled := false
	// reference: a sequential child (one goroutine) per round seed gives the expected digest
	runOne := func(round int, c cfg, tag string) (*c16result, error) {
		// generous watchdog per child (a normal round takes seconds): corrupted shared state can make a child spin
		// for ever; what it logged before (race reports) is still evidence
		ctx, cancel := context.WithTimeout(context.Background(), time.Duration(r.Pick(6, 15))*time.Minute)
		defer cancel()
		cmd := exec.CommandContext(ctx, monBin, "c16child", fmt.Sprint(r.Seed), fmt.Sprint(round), fmt.Sprint(c.G), fmt.Sprint(c.ops))
		cmd.Env = append(os.Environ(), fmt.Sprintf("GOMAXPROCS=%d", c.procs),
			"GORACE=halt_on_error=0 exitcode=0 log_path="+filepath.Join(r.OutDir, fmt.Sprintf("race-%s%d", tag, round)))
		if round%3 == 1 {
			cmd.Env = append(cmd.Env, "GOGC=5") // very frequent collections: pools are emptied, finalizers run
		}
		var stderr bytes.Buffer
		cmd.Stderr = &stderr
		out, err := cmd.Output()
		if ctx.Err() != nil {
			return nil, fmt.Errorf("child did not finish within %d minutes (killed): %v", r.Pick(6, 15), ctx.Err())
		}
		if err != nil {
			return nil, fmt.Errorf("%v stderr: %s", err, clip(stderr.String(), 2000))
		}
		var res c16result
		lines := strings.Split(strings.TrimSpace(string(out)), "\n")
		if err := json.Unmarshal([]byte(lines[len(lines)-1]), &res); err != nil {
			return nil, fmt.Errorf("bad child output: %v: %s", err, clip(string(out), 300))
		}
		return &res, nil
	}
	w := r.NewW()
	allPairs := func() (missing []string) {
		for a := 0; a < nSharedKinds; a++ {
			for b := a; b < nSharedKinds; b++ {
				// Export(shared report) lives on report objects; it only pairs with itself
				if (a == kExportShared) != (b == kExportShared) {
					continue
				}
				k := c16KindNames[a] + " || " + c16KindNames[b]
				if overlap[k] < overlapFloor {
					missing = append(missing, k)
				}
			}
		}
		return
	}
	for round := 0; round < maxRounds; round++ {
		c := cfgs[round%len(cfgs)]
		res, err := runOne(round, c, "")
		if err != nil {
			// a child that died: with halt_on_error=0 the race detector does not kill it, so this is a crash
			if strings.Contains(err.Error(), "github.com/goark/go-cvss") || strings.Contains(err.Error(), "fatal error") {
				p := filepath.Join(r.OutDir, fmt.Sprintf("crash-%d.log", round))
				os.WriteFile(p, []byte(err.Error()), 0o644)
				w.Violate(Violation{Monitor: "C16", Check: "concurrent use does not crash the process", Case: Case{Type: "concurrent", Args: map[string]string{"round": fmt.Sprint(round), "goroutines": fmt.Sprint(c.G), "gomaxprocs": fmt.Sprint(c.procs), "ops": fmt.Sprint(c.ops)}}, Observed: clip(err.Error(), 1500)})
			} else {
				// what the child logged before it failed is still evidence
				cs := Case{Type: "concurrent", Args: map[string]string{"round": fmt.Sprint(round), "goroutines": fmt.Sprint(c.G), "gomaxprocs": fmt.Sprint(c.procs), "ops": fmt.Sprint(c.ops)}}
				inLib := 0
				if n, reps := parseRaceLogs(filepath.Join(r.OutDir, fmt.Sprintf("race-*%d.*", round))); n > 0 {
					for _, rp := range reps {
						if rp.InLib {
							inLib++
							w.Violate(Violation{Monitor: "C16", Check: "no data race (Go race detector)", Case: cs, Observed: rp.Key + fmt.Sprintf(" (%d reports; the child process then failed: %v)", rp.Count, clip(err.Error(), 200)), Note: rp.First})
						}
					}
				}
				if inLib == 0 {
					r.Inconclusive("child of round %d failed: %v", round, err)
				} else {
					break // violations recorded; further rounds would only wait for the same failure again
				}
			}
			continue
		}
		children++
		cold += res.ColdFirst
		ops += res.Ops
		distinct += int64(res.Distinct)
		w.Eval(res.Ops)
		for k, v := range res.Overlap {
			overlap[k] += v
		}
		for k, v := range res.KindCounts {
			kinds[k] += v
		}
		if len(samples) < 6 {
			samples = append(samples, res.SampleHist...)
		}
		cs := Case{Type: "concurrent", Args: map[string]string{"round": fmt.Sprint(round), "goroutines": fmt.Sprint(c.G), "gomaxprocs": fmt.Sprint(c.procs), "ops": fmt.Sprint(c.ops)}}
		for _, m := range res.Mismatches {
			w.Violate(Violation{Monitor: "C16", Check: "every concurrent result equals the result of the same operation run sequentially", Case: cs, Observed: m})
		}
		// independent sequential process: same operation lists, one goroutine at a time is what step 3 of the child did;
		// here the whole child is re-run with GOMAXPROCS=1 and its sequential digest must agree
		if round < 2 || r.Thorough() {
			ref, err := runOne(round, cfg{1, c.G, c.ops}, "ref")
			if err != nil {
				r.Inconclusive("sequential reference child failed: %v", err)
			} else if ref.SeqDigest != res.SeqDigest {
				w.Violate(Violation{Monitor: "C16", Check: "the results after a concurrent phase equal those of a process that ran single-threaded (GOMAXPROCS=1)", Case: cs, Observed: res.SeqDigest, Expected: ref.SeqDigest})
			}
		}
		n, reps := parseRaceLogs(filepath.Join(r.OutDir, fmt.Sprintf("race-*%d.*", round)))
		if n > 0 {
			raceEnabled = true
			for _, rp := range reps {
				p := filepath.Join(r.OutDir, fmt.Sprintf("race-report-%d.txt", round))
				os.WriteFile(p, []byte(rp.First), 0o644)
				if rp.InLib {
					w.Violate(Violation{Monitor: "C16", Check: "no data race (Go race detector)", Case: cs, Observed: rp.Key + fmt.Sprintf(" (%d reports)", rp.Count), Note: rp.First})
				} else {
					r.Inconclusive("race report without library frames (monitor's own code?): %s", rp.Key)
				}
			}
		}
		if round+1 >= minRounds && len(allPairs()) == 0 {
			break
		}
	}
	w.Merge()
	var totalOverlap int64
	for _, v := range overlap {
		totalOverlap += v
	}
	missing := allPairs()
	if missing == nil {
		missing = []string{}
	}
	r.Extra("operation_pairs_below_the_overlap_floor_after_all_rounds", missing)
	if totalOverlap == 0 {
		// no two operations on a shared object ever ran at the same time: nothing concurrent was observed
		r.Inconclusive("no operations on a shared object ever overlapped (no parallelism available?)")
	} else if len(missing) > 0 {
		// the race detector's verdict is happens-before based and does not need the calls to overlap in
		// time; pairs that stayed below the floor weaken only the concurrent-vs-sequential result oracle
		r.Note("operation pairs that overlapped fewer than %d times on a shared object after %d rounds: %v", overlapFloor, maxRounds, missing)
	}
	// is the race detector really on?  (the binary must be a -race build)
	if !raceBuild {
		r.Inconclusive("monitor binary was not built with -race")
	}
	_ = raceEnabled
	for _, s := range samples {
		r.Sample(s)
	}
	r.Extra("overlap_matrix_(pairs_of_operations_on_the_same_shared_object_whose_call_intervals_intersected)", overlap)
	r.Extra("operations_by_kind", kinds)
	r.Extra("child_processes", children)
	r.Extra("cold_first_use_goroutines", cold)
	r.Extra("race_detector", map[string]interface{}{"binary_built_with_race": raceBuild, "GORACE": "halt_on_error=0 log_path=out/C16/race-<round>", "reports_counted_from_log_files": true})
	return r.Finish("race-detector build; per round one child process: first use of the library made concurrently by all goroutines (cold start), then G goroutines (8/32/64; GOMAXPROCS 2/4/16) released from a barrier, without any synchronisation between them afterwards, run seed-determined mixes of: all queries and report construction on SHARED objects of all six types (decoded and invalid), template export on SHARED report objects with shared template strings (string path, chunked readers, readers failing half-way; templates that define equally named blocks differently), decodes of valid/invalid vectors into own objects, export on own reports, names.*; oracles: (1) the Go race detector (any report with a library frame is a violation, de-duplicated by outermost library frame pair), (2) every concurrent result equals the sequential re-execution of the same operation; the recorded history (op, object, call, return from one monotonic clock) yields the overlap matrix; rounds repeat until every operation pair overlapped >= 5 times; distinct non-trivial = distinct operations (kind, object, parameters) executed concurrently",
		false, distinct, 20000, 1000, TrustedBase)
}

func replayC16(r *Run, c Case) {
	monBin := childBinary()
	cmd := exec.Command(monBin, "c16child", fmt.Sprint(r.Seed), c.Args["round"], c.Args["goroutines"], c.Args["ops"])
	cmd.Env = append(os.Environ(), "GOMAXPROCS="+c.Args["gomaxprocs"], "GORACE=halt_on_error=0 exitcode=0 log_path="+filepath.Join(r.OutDir, "race-replay"))
	out, err := cmd.CombinedOutput()
	fmt.Println(clip(string(out), 3000), err)
	n, reps := parseRaceLogs(filepath.Join(r.OutDir, "race-replay.*"))
	fmt.Println("race reports:", n)
	w := r.NewW()
	defer w.Merge()
	for _, rp := range reps {
		if rp.InLib {
			w.Violate(Violation{Monitor: "C16", Check: "no data race", Case: c, Observed: rp.Key, Note: rp.First})
		}
	}
	var res c16result
	lines := strings.Split(strings.TrimSpace(string(out)), "\n")
	if json.Unmarshal([]byte(lines[len(lines)-1]), &res) == nil {
		for _, m := range res.Mismatches {
			w.Violate(Violation{Monitor: "C16", Check: "concurrent == sequential", Case: c, Observed: m})
		}
	}
}

var _ = spec.LBase

// slowReader delivers its data in a few pieces with a pause before each piece but the first.
type slowReader struct {
	data   []byte
	pieces int
	pause  time.Duration
	given  int
}

func (r *slowReader) Read(p []byte) (int, error) {
	if len(r.data) == 0 {
		return 0, io.EOF
	}
	if r.given > 0 {
		time.Sleep(r.pause)
	}
	r.given++
	k := len(r.data)
	if r.given < r.pieces {
		k = (k + r.pieces - r.given) / (r.pieces - r.given + 1)
	}
	k = max(1, min(k, len(p), len(r.data)))
	copy(p, r.data[:k])
	r.data = r.data[k:]
	return k, nil
}
