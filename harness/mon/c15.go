package mon

import (
	"bufio"
	"fmt"
	"io"
	"log/slog"
	"math/rand/v2"
	"os"
	"os/exec"
	"reflect"
	"runtime"
	"sort"
	"strconv"
	"strings"
	"sync"
	"sync/atomic"
	"time"

	"verif/harness/lib"
	"verif/harness/spec"
)

func init() {
	register(&Monitor{ID: "C15", Title: "queries never modify a metrics object; results are deterministic and history-free", Run: runC15, Replay: replayC15})
	internals["c15child"] = c15child
}

// ---------------------------------------------------------------------------
// API-level snapshot of everything the package tables can influence
// ---------------------------------------------------------------------------

// tableSnapshot renders the observable behaviour of all package-level tables.
// unstable lists lookups whose repeated results differed within this call.
func tableSnapshot(repeats int) (snap string, unstable []string) {
	var sb strings.Builder
	descs := allMetricDescs()
	for i := range descs {
		md := &descs[i]
		ops := md.ops
		name := codeCase(md, "").Kind
		maxc := 0
		for _, c := range md.cst {
			if c > maxc {
				maxc = c
			}
		}
		for _, code := range append(append([]string(nil), md.codes...), "", "Z", "X", "ND", "N") {
			first := ops.Get(code)
			for k := 1; k < repeats; k++ {
				if g := ops.Get(code); g != first {
					unstable = append(unstable, fmt.Sprintf("%s.Get(%q) returned %d and %d", name, code, first, g))
					break
				}
			}
			fmt.Fprintf(&sb, "%s.Get(%q)=%d\n", name, code, first)
		}
		for v := -2; v <= maxc+3; v++ {
			fmt.Fprintf(&sb, "%s(%d).String=%q valid=%v", name, v, ops.Str(v), ops.Valid(v))
			if ops.Defined != nil {
				fmt.Fprintf(&sb, " defined=%v", ops.Defined(v))
			}
			if ops.HasValue {
				for a := 0; a <= 5; a++ {
					switch ops.Kind {
					case "mpr":
						for b := 0; b <= 3; b++ {
							for c := 0; c <= 4; c++ {
								fmt.Fprintf(&sb, " %v", ops.Value(v, a, b, c))
							}
						}
					default:
						fmt.Fprintf(&sb, " %v", ops.Value(v, a, 0, 0))
					}
				}
			}
			sb.WriteByte('\n')
		}
	}
	for s := 0; s <= 3; s++ {
		fmt.Fprintf(&sb, "Scope(%d).IsChanged=%v", s, lib.ScopeIsChanged(s))
		for ms := 0; ms <= 4; ms++ {
			fmt.Fprintf(&sb, " MS(%d)=%v", ms, lib.ModifiedScopeIsChanged(ms, s))
		}
		sb.WriteByte('\n')
	}
	for _, l := range []string{"3.0", "3.1", "3.2", "", "2.0"} {
		v, err := lib.GetVersion3("CVSS:" + l)
		first := v
		for k := 1; k < repeats; k++ {
			if g, _ := lib.GetVersion3("CVSS:" + l); g != first {
				unstable = append(unstable, fmt.Sprintf("GetVersion(%q) returned %d and %d", l, first, g))
				break
			}
		}
		fmt.Fprintf(&sb, "GetVersion(%q)=%d,%v legacy=%d\n", l, v, err != nil, lib.LegacyGet(l))
	}
	for n := -1; n <= 4; n++ {
		fmt.Fprintf(&sb, "Version(%d)=%q legacy=%q\n", n, lib.VersionString3(n), lib.LegacyString(n))
	}
	for _, lang := range []string{"en", "ja", "fr", "und"} {
		t := tagOf(lang)
		for i := range lib.TitleFns {
			fmt.Fprintf(&sb, "%s(%s)=%q\n", lib.TitleFns[i].Name, lang, lib.TitleFns[i].F(t))
		}
		for i := range lib.ValueFns {
			for v := -1; v <= 7; v++ {
				fmt.Fprintf(&sb, "%s(%d,%s)=%q\n", lib.ValueFns[i].Name, v, lang, lib.ValueFns[i].F(v, t))
			}
		}
	}
	for _, m := range lib.ExportedMaps() {
		sb.WriteString(m)
		sb.WriteByte('\n')
	}
	for _, s := range lib.Sentinels {
		fmt.Fprintf(&sb, "%s=%q\n", s.Name, s.Err.Error())
	}
	return sb.String(), unstable
}

// ---------------------------------------------------------------------------
// per-object monitor
// ---------------------------------------------------------------------------

// stateA is the exported state: fields followed through exported embedded
// pointers, with the identity of those pointers.
func stateA(o lib.Obj) string {
	var sb strings.Builder
	fmt.Fprint(&sb, o.Fields())
	if eb, ok := o.EmbeddedBase(); ok {
		fmt.Fprintf(&sb, " base@%p", eb.Ptr())
	}
	if et, ok := o.EmbeddedTemporal(); ok {
		fmt.Fprintf(&sb, " temporal@%p", et.Ptr())
	}
	return sb.String()
}

// namesFingerprint reads the unexported `names` sets through reflect
// (informational only: a private, correctly invalidated cache would be legitimate).
func namesFingerprint(o lib.Obj) (fp string) {
	defer func() {
		if r := recover(); r != nil {
			fp = "unreadable"
		}
	}()
	var parts []string
	var walk func(v reflect.Value, prefix string)
	walk = func(v reflect.Value, prefix string) {
		if v.Kind() == reflect.Ptr {
			if v.IsNil() {
				return
			}
			v = v.Elem()
		}
		if v.Kind() != reflect.Struct {
			return
		}
		t := v.Type()
		for i := 0; i < t.NumField(); i++ {
			f := t.Field(i)
			fv := v.Field(i)
			if f.Anonymous {
				walk(fv, prefix+f.Name+".")
				continue
			}
			if !f.IsExported() {
				switch fv.Kind() {
				case reflect.Map:
					var ks []string
					for _, k := range fv.MapKeys() {
						ks = append(ks, fmt.Sprint(k, "=", fv.MapIndex(k)))
					}
					sort.Strings(ks)
					parts = append(parts, prefix+f.Name+"{"+strings.Join(ks, ",")+"}")
				case reflect.Float64, reflect.Int, reflect.Bool, reflect.String:
					parts = append(parts, fmt.Sprint(prefix, f.Name, "=", fv))
				default:
					parts = append(parts, prefix+f.Name+":"+fv.Kind().String())
				}
			}
		}
	}
	walk(reflect.ValueOf(o.Ptr()), "")
	return strings.Join(parts, ";")
}

const nQueryOps = 12

var exportTemplate = "{{.Version}}|{{.Vector}}|{{.BaseScore}}|{{.SeverityValue}}|{{.AVName}}={{.AVValue}}"

// doOp executes query operation op (with parameter p) on o and renders the result.
func doOp(o lib.Obj, op, p int) string {
	guard := func(f func() string) (s string) {
		defer func() {
			if r := recover(); r != nil {
				s = fmt.Sprint("PANIC: ", r)
			}
		}()
		return f()
	}
	switch op {
	case 0:
		f, pan := o.Score()
		return fmt.Sprint("score=", f, pan != nil)
	case 1:
		n, s, pan := o.Severity()
		return fmt.Sprint("sev=", n, s, pan != nil)
	case 2:
		err, pan := o.GetError()
		res := fmt.Sprint("err=", lib.ErrClass(err), "|", lib.ErrDetail(err), lib.Annotated(err), pan != nil)
		lib.Annotate(err) // the client decorates the error value it received; later errors must not show it
		return res
	case 3:
		s, err, pan := o.Encode()
		res := fmt.Sprint("enc=", s, "|", lib.ErrClass(err), "|", lib.ErrDetail(err), lib.Annotated(err), pan != nil)
		lib.Annotate(err)
		return res
	case 4:
		s, pan := o.String()
		return fmt.Sprint("str=", s, pan != nil)
	case 5:
		bv, ok, pan := o.BaseView()
		if !ok || pan != nil {
			return fmt.Sprint("baseview:", ok, pan != nil)
		}
		return "baseview:" + obsString(bv)
	case 6:
		tv, ok, pan := o.TemporalView()
		if !ok || pan != nil {
			return fmt.Sprint("temporalview:", ok, pan != nil)
		}
		return "temporalview:" + obsString(tv)
	case 7:
		e, ok, pan := o.IsEmpty()
		return fmt.Sprint("isempty=", e, ok, pan != nil)
	case 8, 9: // report construction (v3, non-nil objects)
		if o.Kind.V2() || o.IsNil() {
			return "n/a"
		}
		lang := reportLangs[p%len(reportLangs)]
		return guard(func() string {
			rep, pan := lib.NewReport(o, tagOf(lang), p%5 != 0)
			if pan != nil {
				return "report panicked: " + pan.Value
			}
			got, _ := rep.Flatten()
			keys := make([]string, 0, len(got))
			for k := range got {
				keys = append(keys, k)
			}
			sort.Strings(keys)
			var sb strings.Builder
			for _, k := range keys {
				sb.WriteString(k + "=" + got[k] + ";")
			}
			if op == 9 {
				out, isNil, err, pan := rep.ExportWithString(exportTemplate)
				fmt.Fprint(&sb, "export=", out, isNil, lib.ErrClass(err), pan != nil)
			}
			return sb.String()
		})
	case 10:
		if eb, ok := o.EmbeddedBase(); ok {
			return "embbase:" + obsString(eb)
		}
		return "n/a"
	default:
		if et, ok := o.EmbeddedTemporal(); ok {
			return "embtemporal:" + obsString(et)
		}
		return "n/a"
	}
}

var opNames = []string{"Score", "Severity", "GetError", "Encode", "String", "BaseMetrics", "TemporalMetrics", "IsEmpty", "report.New", "report.New+ExportWithString", "embedded Base", "embedded Temporal"}

// obsVector is the observation vector (b): the results of every query.
func obsVector(o lib.Obj) string {
	var sb strings.Builder
	for op := 0; op < nQueryOps; op++ {
		switch op {
		case 8:
			sb.WriteString(doOp(o, op, 0) + doOp(o, op, 1))
		case 9:
			sb.WriteString(doOp(o, op, 1))
		default:
			sb.WriteString(doOp(o, op, 0))
		}
		sb.WriteByte('\n')
	}
	return sb.String()
}

// objSource describes how an object under test is obtained (replayable).
type objSource struct {
	Kind  lib.Kind
	Input string
	Mode  int // 0 successful decode, 1 receiver left behind by a failed decode, 2 constructor result
}

func (s objSource) make() lib.Obj {
	switch s.Mode {
	case 2:
		return lib.New(s.Kind)
	case 1:
		recv := lib.New(s.Kind)
		lib.DecodeOn(recv, s.Input)
		return recv
	default:
		o, _, _ := lib.Decode(s.Kind, s.Input, false)
		return o
	}
}

func randomSource(rng *rand.Rand) objSource {
	k := lib.Kind(rng.IntN(int(lib.NKinds)))
	level := k.Level()
	mode := 0
	switch rng.IntN(10) {
	case 0:
		mode = 2
	case 1, 2:
		mode = 1
	}
	var s string
	if k.V2() {
		v := seed2(rng, rng.IntN(level+1))
		s = v.String()
	} else {
		v := seed3(rng, rng.IntN(level+1))
		s = join3("CVSS:"+spec.V3Versions[v.Ver], toks3(&v, level, rng, rng.IntN(2) == 0))
	}
	if mode == 1 {
		// break the vector somewhere so that the decode fails after some tokens
		for try := 0; try < 8; try++ {
			b := randomEdit(rng, s, k.V2())
			if ok, _ := refParse(k.V2(), b, level); !ok {
				s = b
				break
			}
		}
		if ok, _ := refParse(k.V2(), s, level); ok {
			s += "/ZZ:N"
		}
	}
	return objSource{Kind: k, Input: s, Mode: mode}
}

type c15stats struct {
	ops, mutations, namesChanged atomic.Int64
	opCount                      [nQueryOps]atomic.Int64
}

func histCase(src objSource, seed uint64, n int) Case {
	c := Case{Type: "ops", Kind: src.Kind.String(), Args: map[string]string{"mode": fmt.Sprint(src.Mode), "history_seed": fmt.Sprint(seed), "history_len": fmt.Sprint(n)}}
	c.SetInput(src.Input)
	return c
}

// runHistory applies a seeded random query sequence to one object.
func runHistory(w *W, st *c15stats, src objSource, hseed uint64, n int) {
	rng := rand.New(rand.NewPCG(hseed, 0x5eed))
	c := histCase(src, hseed, n)
	twinBefore := obsVector(src.make())
	o := src.make()
	if o.IsNil() {
		w.Count("object_unavailable")
		return
	}
	w.Eval(1)
	// The object under test is NOT queried before its history starts: its first query is whatever the
	// seeded sequence says, so an operation whose first execution changes what others report is seen
	// whatever it is.  The reference is the observation vector of twins.
	selfBefore := twinBefore
	if t2 := obsVector(src.make()); t2 != twinBefore {
		w.Violate(Violation{Monitor: "C15", Check: "two objects obtained the same way report identical results", Case: c, Observed: clip(t2, 600), Expected: clip(twinBefore, 600)})
	}
	a0 := stateA(o)
	aTwin := stateA(src.make())
	if stripPtr(a0) != stripPtr(aTwin) {
		w.Violate(Violation{Monitor: "C15", Check: "two objects obtained the same way have identical exported fields", Case: c, Observed: a0, Expected: aTwin})
	}
	n0 := namesFingerprint(o)
	if hseed%97 == 0 {
		// a hot object: thousands of score / severity queries (sorting an inventory by score) before anything else
		for i := 0; i < 5000; i++ {
			o.Score()
			if i%3 == 0 {
				o.Severity()
			}
		}
		w.Count("objects_queried_5000_times_first")
	}
	first := map[int]string{}
	var trace []string
	for i := 0; i < n; i++ {
		op := rng.IntN(nQueryOps)
		p := 0
		if op == 8 || op == 9 {
			p = rng.IntN(len(reportLangs))
		}
		// occasionally: mutate an exported field, query, restore, query
		if src.Mode == 0 && rng.IntN(25) == 0 {
			f := rng.IntN(o.NFields())
			old, ok := o.Field(f)
			if ok {
				var nv int
				if o.Kind.V2() {
					nv = append(append([]int(nil), lib.C2[f]...), lib.U2[f])[rng.IntN(len(lib.C2[f])+1)]
				} else {
					nv = append(append([]int(nil), lib.C3[f]...), lib.U3[f])[rng.IntN(len(lib.C3[f])+1)]
				}
				st.mutations.Add(1)
				o.SetField(f, nv)
				mutated := obsVector(o)
				twin := src.make()
				twin.SetField(f, nv)
				if want := obsVector(twin); mutated != want {
					w.Violate(Violation{Monitor: "C15", Check: "after an exported field is changed, queries report what a fresh object with the same fields reports (no stale cached result)", Case: c,
						Observed: clip(mutated, 600), Expected: clip(want, 600), Note: fmt.Sprintf("field #%d %d -> %d after %v", f, old, nv, trace)})
				}
				o.SetField(f, old)
				if back := obsVector(o); back != selfBefore {
					w.Violate(Violation{Monitor: "C15", Check: "after the field is restored, queries report the original results again", Case: c, Observed: clip(back, 600), Expected: clip(selfBefore, 600)})
				}
				continue
			}
		}
		res := doOp(o, op, p)
		st.ops.Add(1)
		st.opCount[op].Add(1)
		if len(trace) < 40 {
			trace = append(trace, opNames[op])
		}
		key := op*64 + p
		if prev, seen := first[key]; seen {
			if res != prev {
				w.Violate(Violation{Monitor: "C15", Check: "repeating a query returns the identical result", Case: c, Observed: clip(res, 500), Expected: clip(prev, 500), Note: fmt.Sprintf("op %s #%d after %v", opNames[op], i, trace)})
			}
		} else {
			first[key] = res
		}
		if a := stateA(o); a != a0 {
			w.Violate(Violation{Monitor: "C15", Check: "a query does not change the object's exported fields / embedded pointers", Case: c, Observed: a, Expected: a0, Note: fmt.Sprintf("after op %s #%d", opNames[op], i)})
			a0 = a
		}
	}
	if nf := namesFingerprint(o); nf != n0 {
		st.namesChanged.Add(1)
	}
	selfAfter := obsVector(o)
	if selfAfter != selfBefore {
		w.Violate(Violation{Monitor: "C15", Check: "after a history of queries the object reports what it reported before", Case: c, Observed: clip(selfAfter, 600), Expected: clip(selfBefore, 600), Note: fmt.Sprint(trace)})
	}
	if twinAfter := obsVector(src.make()); twinAfter != selfBefore {
		w.Violate(Violation{Monitor: "C15", Check: "an object obtained after the history reports what the one obtained before reported", Case: c, Observed: clip(twinAfter, 600), Expected: clip(selfBefore, 600)})
	}
	// A Decode on a receiver that has only been queried (constructor result) must behave like a Decode on an
	// untouched one: queries do not change what later operations return.
	if src.Mode == 2 {
		s2 := src.Input
		a, aerr, apan := lib.DecodeOn(o, s2)
		b, berr, bpan := lib.DecodeOn(lib.New(src.Kind), s2)
		ra := fmt.Sprint(lib.ErrClass(aerr), apan != nil, "|", obsVector(a))
		rb := fmt.Sprint(lib.ErrClass(berr), bpan != nil, "|", obsVector(b))
		if ra != rb {
			w.Violate(Violation{Monitor: "C15", Check: "Decode on a constructor result that was queried first returns what Decode on an untouched constructor result returns", Case: c, Observed: clip(ra, 600), Expected: clip(rb, 600), Note: fmt.Sprint(trace)})
		}
	}
	w.DistinctS("objects", src.Input+src.Kind.String()+fmt.Sprint(src.Mode))
}

// ---------------------------------------------------------------------------
// process-level monitor
// ---------------------------------------------------------------------------

// pairDigest executes pair i of the seed-determined multiset and digests the result.
func pairSource(seed int64, i int) (objSource, int, int) {
	rng := rand.New(rand.NewPCG(uint64(seed)*7919+uint64(i), 0xC15))
	src := randomSource(rng)
	return src, rng.IntN(nQueryOps), rng.IntN(len(reportLangs))
}

func pairDigest(seed int64, i int) uint64 {
	src, op, p := pairSource(seed, i)
	o := src.make()
	_, err, _ := lib.Decode(src.Kind, src.Input, i%2 == 0)
	return Hash(doOp(o, op, p) + "|" + obsVector(o) + "|" + lib.ErrClass(err) + "|" + lib.ErrText(err))
}

// c15child: args = seed orderSeed nPairs [single index]; prints "i digest" lines
// and a final table-snapshot digest.
func c15child(args []string, _ int64, _ string) int {
	if os.Getenv("VERIF_C15_SLOG_DEBUG") != "" {
		// a process-wide standard-library setting made before the library is used
		slog.SetDefault(slog.New(slog.NewTextHandler(io.Discard, &slog.HandlerOptions{Level: slog.LevelDebug})))
	}
	seed, _ := strconv.ParseInt(args[0], 10, 64)
	orderSeed, _ := strconv.ParseUint(args[1], 10, 64)
	n, _ := strconv.Atoi(args[2])
	out := bufio.NewWriter(os.Stdout)
	defer out.Flush()
	snap0, _ := tableSnapshot(2)
	if len(args) > 3 {
		i, _ := strconv.Atoi(args[3])
		fmt.Fprintf(out, "%d %d\n", i, pairDigest(seed, i))
		fmt.Fprintf(out, "snapshot %d\n", Hash(snap0))
		return 0
	}
	rng := rand.New(rand.NewPCG(orderSeed, 0xC15C))
	order := rng.Perm(n)
	// interleave: a window of live objects whose steps are executed in a seed-determined order
	type live struct {
		i    int
		o    lib.Obj
		step int
	}
	var window []*live
	next := 0
	for next < n || len(window) > 0 {
		if next < n && (len(window) < 6 || rng.IntN(3) == 0) {
			i := order[next]
			next++
			src, _, _ := pairSource(seed, i)
			window = append(window, &live{i: i, o: src.make()})
			continue
		}
		k := rng.IntN(len(window))
		l := window[k]
		l.step++
		// unrelated queries on a live object before its pair is finally evaluated
		doOp(l.o, rng.IntN(nQueryOps), rng.IntN(len(reportLangs)))
		if l.step >= 3 {
			fmt.Fprintf(out, "%d %d\n", l.i, pairDigest(seed, l.i))
			window = append(window[:k], window[k+1:]...)
		}
	}
	snap1, unstable := tableSnapshot(8)
	if snap1 != snap0 || len(unstable) > 0 {
		fmt.Fprintf(out, "snapshot-changed %v\n", unstable)
	}
	fmt.Fprintf(out, "snapshot %d\n", Hash(snap1))
	return 0
}

func runChild(mon string, args ...string) (map[int]uint64, string, error) {
	return runChildEnv(mon, nil, args...)
}

func runChildEnv(mon string, env []string, args ...string) (map[int]uint64, string, error) {
	cmd := exec.Command(mon, args...)
	cmd.Env = append(os.Environ(), env...)
	outb, err := cmd.Output()
	if err != nil {
		return nil, "", fmt.Errorf("%v: %s", err, clip(string(outb), 400))
	}
	res := map[int]uint64{}
	snap := ""
	for _, line := range strings.Split(string(outb), "\n") {
		f := strings.Fields(line)
		if len(f) < 2 {
			continue
		}
		if f[0] == "snapshot" {
			snap = f[1]
			continue
		}
		if f[0] == "snapshot-changed" {
			snap = "CHANGED " + line
			continue
		}
		i, e1 := strconv.Atoi(f[0])
		d, e2 := strconv.ParseUint(f[1], 10, 64)
		if e1 == nil && e2 == nil {
			res[i] = d
		}
	}
	return res, snap, nil
}

func runC15(r *Run) int {
	r.CleanOut()
	st := &c15stats{}
	// table probe before the workload
	snap0, unstable0 := tableSnapshot(64)
	nObj := r.Pick(20000, 200000)
	// objects kept alive for the whole workload and observed again at the very end
	type liveObj struct {
		o    lib.Obj
		src  objSource
		want uint64
	}
	var liveMu sync.Mutex
	var live []liveObj
	firstObs := make([]uint64, min(2000, nObj)) // what the first sources of the run reported when they were first made
	histories := func(lo, hi int) {
		r.Parallel(hi-lo, 4, func(w *W, j int) {
			i := lo + j
			rng := r.Rng(uint64(i) + 1)
			src := randomSource(rng)
			n := 10 + rng.IntN(r.Pick(90, 190))
			hseed := uint64(r.Seed)<<32 ^ uint64(i)*0x9E3779B97F4A7C15
			if i < len(firstObs) {
				firstObs[i] = Hash(obsVector(src.make()))
			}
			runHistory(w, st, src, hseed, n)
			if i%3 == 0 { // one more object of this origin stays alive, untouched, until the end
				o := src.make()
				if !o.IsNil() {
					liveMu.Lock()
					live = append(live, liveObj{o, src, Hash(obsVector(src.make()))})
					liveMu.Unlock()
				}
			}
			if i%977 == 0 {
				w.Sample(map[string]interface{}{"object": src.Kind.String(), "obtained": []string{"successful decode", "receiver left behind by a failed decode", "constructor"}[src.Mode], "vector": src.Input, "history_length": n})
			}
		})
	}
	histories(0, nObj/2)
	GCStress(func() { histories(nObj/2, nObj) }) // the second half under forced garbage collections
	// views that outlive their owner: only BaseMetrics() / TemporalMetrics() of a decoded object are kept, the owner
	// is dropped, garbage collections run, other vectors are decoded, and the views are observed again
	type keptView struct {
		v    lib.Obj
		want string
		src  objSource
	}
	var kept []keptView
	{
		rng := r.Rng(777)
		for len(kept) < r.Pick(600, 6000) {
			src := randomSource(rng)
			if src.Mode != 0 || src.Kind.Level() == 0 {
				continue
			}
			o := src.make()
			if o.IsNil() {
				continue
			}
			if bv, ok, _ := o.BaseView(); ok && !bv.IsNil() {
				kept = append(kept, keptView{bv, obsString(bv), src})
			}
			if tv, ok, _ := o.TemporalView(); ok && !tv.IsNil() {
				kept = append(kept, keptView{tv, obsString(tv), src})
			}
		}
		for round := 0; round < 3; round++ {
			runtime.GC()
			time.Sleep(2 * time.Millisecond)
			for j := 0; j < 2000; j++ { // unrelated decoding in between
				randomSource(rng).make()
			}
		}
		w := r.NewW()
		for _, kv := range kept {
			w.Eval(1)
			if got := obsString(kv.v); got != kv.want {
				c := histCase(kv.src, 0, 0)
				c.Args["kept"] = "only the " + kv.v.Kind.String() + " view was kept; the owner was dropped and garbage collections ran"
				w.Violate(Violation{Monitor: "C15", Check: "a BaseMetrics()/TemporalMetrics() view keeps reporting the same results after its owner was dropped and collected", Case: c, Observed: got, Expected: kv.want})
			}
		}
		w.Merge()
		r.Extra("views_kept_after_their_owner_was_dropped", len(kept))
	}
	// the first sources of the run are made again at the very end (after tens of thousands of other distinct vectors)
	r.Parallel(len(firstObs), 16, func(w *W, i int) {
		rng := r.Rng(uint64(i) + 1)
		src := randomSource(rng)
		a := obsVector(src.make())
		w.Eval(1)
		if Hash(a) != firstObs[i] {
			w.Violate(Violation{Monitor: "C15", Check: "a vector decoded again at the end of the run reports what it reported at its start", Case: histCase(src, 0, 0), Observed: clip(a, 400), Expected: fmt.Sprint("digest ", firstObs[i])})
		}
		w.DistinctS("revisited", src.Input)
	})
	// the objects that stayed alive (never queried so far) must still report what a twin reported when they were made
	r.Parallel(len(live), 64, func(w *W, i int) {
		w.Eval(1)
		if got := Hash(obsVector(live[i].o)); got != live[i].want {
			w.Violate(Violation{Monitor: "C15", Check: "an object that stayed alive (unqueried) while thousands of others were decoded and queried reports what a twin reported when it was made", Case: histCase(live[i].src, 0, 0), Observed: got, Expected: live[i].want})
		}
	})
	r.Extra("objects_kept_alive_and_observed_at_the_end", len(live))
	// two objects returned by consecutive Decode calls (same base metrics, or the same string) are independent:
	// overwriting every exported field of one leaves what the other reports unchanged.  One goroutine, so that
	// the two calls really are consecutive for the library.
	{
		w := r.NewW()
		rng := r.Rng(4242)
		for i, n := 0, r.Pick(4000, 40000); i < n; i++ {
			k := lib.Kind(rng.IntN(int(lib.NKinds)))
			level := k.Level()
			var sa, sb string
			if k.V2() {
				va := seed2(rng, level)
				vb := va
				if level >= spec.LTemp && rng.IntN(4) > 0 {
					temporal2(&vb, rng.IntN(nTemp2))
				}
				if level == spec.LEnv {
					env2(&vb, rng.IntN(nEnv2))
				}
				sa, sb = va.String(), vb.String()
			} else {
				va := seed3(rng, level)
				vb := va
				if rng.IntN(4) > 0 {
					randOptional3(&vb, level, rng)
				}
				sa, sb = render3(&va, level, nil), render3(&vb, level, nil)
			}
			nilRecv := rng.IntN(3) == 0
			twin, terr, _ := lib.Decode(k, sb, nilRecv)
			if terr != nil || twin.IsNil() {
				w.Count("object_unavailable")
				continue
			}
			want := obsVector(twin)
			first, second := sa, sb
			if i%2 == 1 { // the later object is the one overwritten
				first, second = sb, sa
			}
			o1, err1, _ := lib.Decode(k, first, nilRecv)
			o2, err2, _ := lib.Decode(k, second, nilRecv)
			if err1 != nil || err2 != nil || o1.IsNil() || o2.IsNil() {
				w.Count("object_unavailable")
				continue
			}
			victim, other := o1, o2
			if i%2 == 1 {
				victim, other = o2, o1
			}
			// victim was decoded from sa, other from sb
			if rng.IntN(2) == 0 {
				victim.Score()
			}
			lib.Scribble(victim, uint32(rng.Uint64()))
			victim.Observe()
			w.Eval(1)
			w.Count("pairs_of_consecutively_decoded_objects_with_one_overwritten")
			if got := obsVector(other); got != want {
				c := decodeCase(k, sb, nilRecv)
				c.Args = map[string]string{"decoded_next_to": sa, "then": "every exported field of the object decoded from decoded_next_to was overwritten"}
				w.Violate(Violation{Monitor: "C15", Check: "objects returned by different Decode calls are independent: overwriting the exported fields of one does not change what the other reports", Case: c, Observed: clip(got, 600), Expected: clip(want, 600)})
			}
		}
		w.Merge()
	}
	r.Phase("per-object histories")
	// table probe after the workload
	snap1, unstable1 := tableSnapshot(64)
	w := r.NewW()
	w.Eval(2)
	if snap0 != snap1 {
		d := firstDiffLine(snap0, snap1)
		w.Violate(Violation{Monitor: "C15", Check: "the API-level snapshot of all package tables is identical before and after the workload", Case: Case{Type: "table"}, Observed: d})
	}
	for _, u := range append(unstable0, unstable1...) {
		w.Violate(Violation{Monitor: "C15", Check: "a repeated table lookup returns the identical result (value codes unique per metric)", Case: Case{Type: "table"}, Observed: u})
	}
	w.Merge()
	r.Extra("table_snapshot_lines", strings.Count(snap0, "\n"))
	// process-level: K children execute the same multiset in different orders / interleavings
	monBin := childBinary()
	K := r.Pick(6, 16)
	nPairs := r.Pick(10000, 60000)
	results := make([]map[int]uint64, K)
	snaps := make([]string, K)
	errsC := make([]error, K)
	var wg sync.WaitGroup
	for k := 0; k < K; k++ {
		wg.Add(1)
		go func(k int) {
			defer wg.Done()
			// children 2 and 3 run under another process environment: a Japanese POSIX locale, a debug-level default logger
			var env []string
			switch k {
			case 2:
				env = []string{"LC_ALL=ja_JP.UTF-8", "LANG=ja_JP.UTF-8", "LC_MESSAGES=ja_JP.UTF-8", "TZ=Asia/Tokyo"}
			case 3:
				env = []string{"VERIF_C15_SLOG_DEBUG=1", "GODEBUG=", "GOGC=20"}
			}
			results[k], snaps[k], errsC[k] = runChildEnv(monBin, env, "c15child", fmt.Sprint(r.Seed), fmt.Sprint(k+1), fmt.Sprint(nPairs))
		}(k)
	}
	wg.Wait()
	w = r.NewW()
	for k := 0; k < K; k++ {
		if errsC[k] != nil {
			r.Inconclusive("child process %d failed: %v", k, errsC[k])
			continue
		}
		w.Eval(int64(len(results[k])))
		if strings.HasPrefix(snaps[k], "CHANGED") {
			w.Violate(Violation{Monitor: "C15", Check: "package tables unchanged inside a child process", Case: Case{Type: "table"}, Observed: snaps[k]})
		}
		if len(results[k]) != nPairs {
			r.Inconclusive("child %d reported %d of %d pairs", k, len(results[k]), nPairs)
		}
		for i, d := range results[k] {
			if d0, ok := results[0][i]; ok && d0 != d {
				src, op, p := pairSource(r.Seed, i)
				c := histCase(src, 0, 0)
				c.Args["pair_index"] = fmt.Sprint(i)
				c.Args["op"] = opNames[op] + "/" + fmt.Sprint(p)
				w.Violate(Violation{Monitor: "C15", Check: "what a decode or query returns does not depend on what the process did before (processing order " + fmt.Sprint(k+1) + " vs 1)", Case: c, Observed: d, Expected: d0})
			}
		}
		if snaps[k] != snaps[0] {
			w.Violate(Violation{Monitor: "C15", Check: "table snapshot identical across processes", Case: Case{Type: "table"}, Observed: snaps[k], Expected: snaps[0]})
		}
	}
	// cold processes handling a single pair each
	nCold := r.Pick(24, 200)
	cold := make([]map[int]uint64, nCold)
	idxs := make([]int, nCold)
	rng := r.Rng(4242)
	sem := make(chan struct{}, 16)
	for j := 0; j < nCold; j++ {
		idxs[j] = rng.IntN(nPairs)
		wg.Add(1)
		go func(j int) {
			defer wg.Done()
			sem <- struct{}{}
			cold[j], _, _ = runChild(monBin, "c15child", fmt.Sprint(r.Seed), "0", fmt.Sprint(nPairs), fmt.Sprint(idxs[j]))
			<-sem
		}(j)
	}
	wg.Wait()
	for j := 0; j < nCold; j++ {
		w.Eval(1)
		d, ok := cold[j][idxs[j]]
		if !ok {
			r.Inconclusive("cold child for pair %d gave no result", idxs[j])
			continue
		}
		if results[0] != nil && d != results[0][idxs[j]] {
			src, op, p := pairSource(r.Seed, idxs[j])
			c := histCase(src, 0, 0)
			c.Args["pair_index"] = fmt.Sprint(idxs[j])
			c.Args["op"] = opNames[op] + "/" + fmt.Sprint(p)
			w.Violate(Violation{Monitor: "C15", Check: "a cold process handling a single vector gets the same result as a process with a long history", Case: c, Observed: d, Expected: results[0][idxs[j]]})
		}
	}
	w.Merge()
	r.Phase("process-level orders")
	opc := map[string]int64{}
	for i := range opNames {
		opc[opNames[i]] = st.opCount[i].Load()
	}
	r.Extra("query_operations_applied", opc)
	r.Extra("exported_field_mutate/query/restore/query_steps", st.mutations.Load())
	r.Extra("objects_whose_unexported_state_fingerprint_changed_(informational,_not_judged)", st.namesChanged.Load())
	r.Extra("process_level", map[string]int{"child_processes": K, "pairs_per_child": nPairs, "cold_single_pair_processes": nCold})
	return r.Finish("per-object monitor: seeded random sequences (10-100 quick / 10-200 thorough) over {Score, Severity, GetError, Encode, String, BaseMetrics, TemporalMetrics, IsEmpty, report.New* in a random language, report + ExportWithString, exported embedded objects} on objects from successful decodes, receivers left behind by failed decodes and constructors (all six types): exported fields and embedded-pointer identity compared after every operation, every result compared with the first result of that (object, operation), final observation vector compared with the object's own before the history and with twins obtained before and after it; mutate-field/query/restore/query steps against a fresh twin; process level: K child processes execute the same multiset of (vector, operation) pairs in different orders with interleaved unrelated queries (one of them under a Japanese POSIX locale, one with a debug-level default logger and GOGC=20), plus cold single-pair processes - all digests equal; API-level snapshot of all package tables before/after; a third of the objects have a twin that stays alive and unqueried until the end of the workload and is observed then; the second half of the histories runs under forced garbage collections; distinct non-trivial = distinct objects put through a history",
		false, int64(r.SetSize("objects")), int64(nObj), int64(nObj/2), TrustedBase)
}

// stripPtr removes the pointer identities from a stateA rendering.
func stripPtr(s string) string {
	if i := strings.Index(s, " base@"); i >= 0 {
		return s[:i]
	}
	if i := strings.Index(s, " temporal@"); i >= 0 {
		return s[:i]
	}
	return s
}

func firstDiffLine(a, b string) string {
	la, lb := strings.Split(a, "\n"), strings.Split(b, "\n")
	for i := 0; i < len(la) && i < len(lb); i++ {
		if la[i] != lb[i] {
			return fmt.Sprintf("line %d: before %q after %q", i, clip(la[i], 200), clip(lb[i], 200))
		}
	}
	return fmt.Sprintf("length differs: %d vs %d lines", len(la), len(lb))
}

func replayC15(r *Run, c Case) {
	w := r.NewW()
	defer w.Merge()
	st := &c15stats{}
	if c.Type == "table" {
		s0, u0 := tableSnapshot(64)
		s1, u1 := tableSnapshot(64)
		if s0 != s1 || len(u0)+len(u1) > 0 {
			w.Violate(Violation{Monitor: "C15", Check: "table snapshot stable", Case: c, Observed: fmt.Sprint(firstDiffLine(s0, s1), u0, u1)})
		}
		return
	}
	if sa, ok := c.Args["decoded_next_to"]; ok {
		k, sb := kindByName(c.Kind), c.GetInput()
		twin, _, _ := lib.Decode(k, sb, c.NilRcv)
		want := obsVector(twin)
		for i := 0; i < 64; i++ {
			first, second := sa, sb
			if i%2 == 1 {
				first, second = sb, sa
			}
			o1, _, _ := lib.Decode(k, first, c.NilRcv)
			o2, _, _ := lib.Decode(k, second, c.NilRcv)
			victim, other := o1, o2
			if i%2 == 1 {
				victim, other = o2, o1
			}
			if i%4 < 2 {
				victim.Score()
			}
			lib.Scribble(victim, uint32(i*2654435761))
			victim.Observe()
			if got := obsVector(other); got != want {
				w.Violate(Violation{Monitor: "C15", Check: "objects returned by different Decode calls are independent: overwriting the exported fields of one does not change what the other reports", Case: c, Observed: clip(got, 600), Expected: clip(want, 600)})
				return
			}
		}
		return
	}
	mode, _ := strconv.Atoi(c.Args["mode"])
	src := objSource{Kind: kindByName(c.Kind), Input: c.GetInput(), Mode: mode}
	hseed, _ := strconv.ParseUint(c.Args["history_seed"], 10, 64)
	n, _ := strconv.Atoi(c.Args["history_len"])
	if n == 0 {
		n = 100
	}
	runHistory(w, st, src, hseed, n)
	for s := uint64(1); s <= 20; s++ {
		runHistory(w, st, src, s, 150)
	}
	fmt.Printf("replay %s %q mode=%d: observation vector:\n%s\n", c.Kind, src.Input, mode, clip(obsVector(src.make()), 1500))
}
