module verif/harness

go 1.23

require (
	github.com/goark/errs v1.3.2
	github.com/goark/go-cvss v0.0.0
	golang.org/x/text v0.14.0
)

replace github.com/goark/go-cvss => /repo
