package lib

import (
	ver "github.com/goark/go-cvss/v3/version"
)

// Legacy v3/version package.
func LegacyGet(s string) int    { return int(ver.Get(s)) }
func LegacyString(n int) string { return ver.Num(n).String() }

var LegacyConst = []int{int(ver.V3_0), int(ver.V3_1)}
var LegacyUnknown = int(ver.Unknown)
