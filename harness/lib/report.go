package lib

import (
	"fmt"
	"io"
	"reflect"

	"github.com/goark/go-cvss/v3/report"
	"golang.org/x/text/language"
)

// Report is a handle on one of the three report types.
type Report struct {
	Level int // 0 base, 1 temporal, 2 environmental
	B     *report.BaseReport
	T     *report.TemporalReport
	E     *report.EnvironmentalReport
}

// NewReport builds the report of o's level.  withLang=false uses the default
// language (no option).
func NewReport(o Obj, lang language.Tag, withLang bool) (rep Report, pan *Panic) {
	defer catch(&pan)
	var opts []report.ReportOptionsFunc
	if withLang {
		opts = append(opts, report.WithOptionsLanguage(lang))
	}
	switch o.Kind {
	case K3B:
		rep = Report{Level: 0, B: report.NewBase(o.B3, opts...)}
	case K3T:
		rep = Report{Level: 1, T: report.NewTemporal(o.T3, opts...)}
	case K3E:
		rep = Report{Level: 2, E: report.NewEnvironmental(o.E3, opts...)}
	default:
		panic("NewReport: not a v3 object")
	}
	return
}

// SharedOptions is one backing array of report options with spare capacity; sub-slices of it are handed to
// the report constructors by different goroutines (a constructor that appends to the caller's slice would
// write into the shared array).
var sharedOptLangs = []language.Tag{language.Japanese, language.English, language.French}

func SharedOptions() []report.ReportOptionsFunc {
	all := make([]report.ReportOptionsFunc, 0, 8)
	for _, l := range sharedOptLangs {
		all = append(all, report.WithOptionsLanguage(l))
	}
	return all
}

// SharedOptLang returns the language of option i of SharedOptions.
func SharedOptLang(i int) language.Tag { return sharedOptLangs[i%len(sharedOptLangs)] }

// NewReportOpts builds the report with the caller's option slice passed as a spread slice (len 1, spare capacity).
func NewReportOpts(o Obj, all []report.ReportOptionsFunc, i int) (rep Report, pan *Panic) {
	defer catch(&pan)
	i %= len(sharedOptLangs)
	opts := all[i : i+1]
	switch o.Kind {
	case K3B:
		rep = Report{Level: 0, B: report.NewBase(o.B3, opts...)}
	case K3T:
		rep = Report{Level: 1, T: report.NewTemporal(o.T3, opts...)}
	case K3E:
		rep = Report{Level: 2, E: report.NewEnvironmental(o.E3, opts...)}
	default:
		panic("NewReportOpts: not a v3 object")
	}
	return
}

// NilReport returns a typed-nil report handle of a level.
func NilReport(level int) Report { return Report{Level: level} }

// Ptr returns the report pointer as interface.
func (r Report) Ptr() interface{} {
	switch r.Level {
	case 0:
		return r.B
	case 1:
		return r.T
	default:
		return r.E
	}
}

// Flatten lists every exported field reachable from the report: string fields
// as path -> text (embedded reports recursed with "TypeName." prefixes); other
// kinds are listed in odd.
func (r Report) Flatten() (fields map[string]string, odd []string) {
	fields = map[string]string{}
	var walk func(v reflect.Value, prefix string)
	walk = func(v reflect.Value, prefix string) {
		if v.Kind() == reflect.Ptr {
			if v.IsNil() {
				odd = append(odd, prefix+"<nil>")
				return
			}
			v = v.Elem()
		}
		t := v.Type()
		for i := 0; i < t.NumField(); i++ {
			f := t.Field(i)
			if !f.IsExported() {
				continue
			}
			fv := v.Field(i)
			switch {
			case f.Anonymous && (fv.Kind() == reflect.Ptr || fv.Kind() == reflect.Struct):
				walk(fv, prefix+f.Name+".")
			case fv.Kind() == reflect.String:
				fields[prefix+f.Name] = fv.String()
			default:
				odd = append(odd, prefix+f.Name+":"+fv.Kind().String())
			}
		}
	}
	walk(reflect.ValueOf(r.Ptr()), "")
	return
}

// Scribble overwrites every exported string field reachable from the report (what a client does that
// localises, decorates or redacts a report it received).  Returns the number of fields written.
func (r Report) Scribble() (n int) {
	defer func() { recover() }()
	var walk func(v reflect.Value)
	walk = func(v reflect.Value) {
		if v.Kind() == reflect.Ptr {
			if v.IsNil() {
				return
			}
			v = v.Elem()
		}
		t := v.Type()
		for i := 0; i < t.NumField(); i++ {
			f := t.Field(i)
			if !f.IsExported() {
				continue
			}
			fv := v.Field(i)
			switch {
			case f.Anonymous && (fv.Kind() == reflect.Ptr || fv.Kind() == reflect.Struct):
				walk(fv)
			case fv.Kind() == reflect.String && fv.CanSet():
				fv.SetString("redacted-by-client")
				n++
			}
		}
	}
	walk(reflect.ValueOf(r.Ptr()))
	return n
}

// NewReportLangs builds the report with one language option per tag, in order (the last one is the
// language requested).
func NewReportLangs(o Obj, tags ...language.Tag) (rep Report, pan *Panic) {
	defer catch(&pan)
	var opts []report.ReportOptionsFunc
	for _, t := range tags {
		opts = append(opts, report.WithOptionsLanguage(t))
	}
	switch o.Kind {
	case K3B:
		rep = Report{Level: 0, B: report.NewBase(o.B3, opts...)}
	case K3T:
		rep = Report{Level: 1, T: report.NewTemporal(o.T3, opts...)}
	case K3E:
		rep = Report{Level: 2, E: report.NewEnvironmental(o.E3, opts...)}
	default:
		panic("NewReportLangs: not a v3 object")
	}
	return
}

// ExportWithString / ExportWith call the template export and read the result.
func (r Report) ExportWithString(tmpl string) (out string, outNil bool, err error, pan *Panic) {
	defer catch(&pan)
	var rd io.Reader
	switch r.Level {
	case 0:
		rd, err = r.B.ExportWithString(tmpl)
	case 1:
		rd, err = r.T.ExportWithString(tmpl)
	default:
		rd, err = r.E.ExportWithString(tmpl)
	}
	return drain(rd, err)
}

func (r Report) ExportWith(src io.Reader) (out string, outNil bool, err error, pan *Panic) {
	defer catch(&pan)
	var rd io.Reader
	switch r.Level {
	case 0:
		rd, err = r.B.ExportWith(src)
	case 1:
		rd, err = r.T.ExportWith(src)
	default:
		rd, err = r.E.ExportWith(src)
	}
	return drain(rd, err)
}

// ExportRaw returns the reader of ExportWithString without draining it.
func (r Report) ExportRaw(tmpl string) (rd io.Reader, err error, pan *Panic) {
	defer catch(&pan)
	switch r.Level {
	case 0:
		rd, err = r.B.ExportWithString(tmpl)
	case 1:
		rd, err = r.T.ExportWithString(tmpl)
	default:
		rd, err = r.E.ExportWithString(tmpl)
	}
	return
}

// Drain reads a held reader to the end.
func Drain(rd io.Reader) (string, bool) {
	s, isNil, _, _ := drain(rd, nil)
	return s, isNil
}

func drain(rd io.Reader, err error) (string, bool, error, *Panic) {
	if rd == nil || (reflect.ValueOf(rd).Kind() == reflect.Ptr && reflect.ValueOf(rd).IsNil()) {
		return "", true, err, nil
	}
	b, rerr := io.ReadAll(rd)
	if rerr != nil {
		return string(b), false, fmt.Errorf("reading the returned reader failed: %v (export error: %v)", rerr, err), nil
	}
	return string(b), false, err, nil
}

// ChainedReport returns a base report assembled by the client whose text fields hold templates that export the
// same report again with the next field as the template (depth levels; the last field is plain text), and the
// template that starts the chain.  Exporting it is a read-only operation on the report.
func ChainedReport(depth int) (rep Report, tmpl string) {
	br := &report.BaseReport{}
	v := reflect.ValueOf(br).Elem()
	var names []string
	for i := 0; i < v.NumField(); i++ {
		if f := v.Type().Field(i); f.IsExported() && v.Field(i).Kind() == reflect.String {
			names = append(names, f.Name)
		}
	}
	if depth > len(names)-1 {
		depth = len(names) - 1
	}
	for i := 0; i < depth; i++ {
		v.FieldByName(names[i]).SetString("<" + names[i] + " {{.ExportWithString ." + names[i+1] + "}}>")
	}
	v.FieldByName(names[depth]).SetString("leaf")
	return Report{Level: 0, B: br}, "{{.ExportWithString ." + names[0] + "}}"
}
