package lib

import (
	"math"
	"sort"
	"sync"
)

var (
	apiMu      sync.Mutex
	apiChanged = map[string]bool{}
)

func noteAPIChange(t string) {
	apiMu.Lock()
	apiChanged[t] = true
	apiMu.Unlock()
}

func nan() float64 { return math.NaN() }

// APIChanged lists the metric types whose dependent-weight Value method no
// longer has the signature the harness knows.
func APIChanged() []string {
	apiMu.Lock()
	defer apiMu.Unlock()
	var out []string
	for t := range apiChanged {
		out = append(out, t)
	}
	sort.Strings(out)
	return out
}
