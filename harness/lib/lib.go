// Package lib is the client-boundary adapter around the library under test.
// Every call into the library made by a monitor goes through here, wrapped in
// recover(), so that a panic becomes an observed event instead of ending the
// monitor.  Only exported API is used.
package lib

import (
	"encoding/json"
	"errors"
	"fmt"
	"runtime/debug"
	"strings"

	"github.com/goark/errs"
	"github.com/goark/go-cvss/cvsserr"
	m2 "github.com/goark/go-cvss/v2/metric"
	m3 "github.com/goark/go-cvss/v3/metric"

	"verif/harness/spec"
)

// Kind identifies one of the six decoders.
type Kind int

const (
	K3B Kind = iota
	K3T
	K3E
	K2B
	K2T
	K2E
	NKinds
)

var KindNames = [NKinds]string{"v3.Base", "v3.Temporal", "v3.Environmental", "v2.Base", "v2.Temporal", "v2.Environmental"}

func (k Kind) String() string { return KindNames[k] }
func (k Kind) V2() bool       { return k >= K2B }
func (k Kind) Level() int     { return int(k) % 3 }

// Kind3 / Kind2 return the decoder kind of a level.
func Kind3(level int) Kind { return Kind(level) }
func Kind2(level int) Kind { return Kind(3 + level) }

// Obj is a handle on a metrics object of any of the six types.
type Obj struct {
	Kind Kind
	B3   *m3.Base
	T3   *m3.Temporal
	E3   *m3.Environmental
	B2   *m2.Base
	T2   *m2.Temporal
	E2   *m2.Environmental
}

// IsNil reports whether the handle's pointer is nil.
func (o Obj) IsNil() bool {
	switch o.Kind {
	case K3B:
		return o.B3 == nil
	case K3T:
		return o.T3 == nil
	case K3E:
		return o.E3 == nil
	case K2B:
		return o.B2 == nil
	case K2T:
		return o.T2 == nil
	default:
		return o.E2 == nil
	}
}

// Ptr returns the underlying pointer as interface (for identity/reflect use).
func (o Obj) Ptr() interface{} {
	switch o.Kind {
	case K3B:
		return o.B3
	case K3T:
		return o.T3
	case K3E:
		return o.E3
	case K2B:
		return o.B2
	case K2T:
		return o.T2
	default:
		return o.E2
	}
}

// Panic describes a recovered panic.
type Panic struct {
	Value string
	Stack string
}

func catch(p **Panic) {
	if r := recover(); r != nil {
		*p = &Panic{Value: fmt.Sprint(r), Stack: string(debug.Stack())}
	}
}

// New returns a fresh constructor result.
func New(k Kind) Obj {
	o := Obj{Kind: k}
	switch k {
	case K3B:
		o.B3 = m3.NewBase()
	case K3T:
		o.T3 = m3.NewTemporal()
	case K3E:
		o.E3 = m3.NewEnvironmental()
	case K2B:
		o.B2 = m2.NewBase()
	case K2T:
		o.T2 = m2.NewTemporal()
	case K2E:
		o.E2 = m2.NewEnvironmental()
	}
	return o
}

// NilObj returns a typed nil handle.
func NilObj(k Kind) Obj { return Obj{Kind: k} }

// DecodeOn calls recv.Decode(s).  recv may be a nil handle (nil receiver).
func DecodeOn(recv Obj, s string) (o Obj, err error, pan *Panic) {
	defer catch(&pan)
	o.Kind = recv.Kind
	switch recv.Kind {
	case K3B:
		o.B3, err = recv.B3.Decode(s)
	case K3T:
		o.T3, err = recv.T3.Decode(s)
	case K3E:
		o.E3, err = recv.E3.Decode(s)
	case K2B:
		o.B2, err = recv.B2.Decode(s)
	case K2T:
		o.T2, err = recv.T2.Decode(s)
	case K2E:
		o.E2, err = recv.E2.Decode(s)
	}
	return
}

// Decode decodes s with a fresh decoder of kind k (constructor result, or nil
// receiver when nilRecv).
func Decode(k Kind, s string, nilRecv bool) (Obj, error, *Panic) {
	if nilRecv {
		return DecodeOn(NilObj(k), s)
	}
	return DecodeOn(New(k), s)
}

// Receiver modes for DecodeMode.
const (
	RecvFresh        = 0 // constructor result
	RecvNil          = 1 // typed nil receiver
	RecvQueried      = 2 // constructor result whose query methods were all called before Decode
	RecvCopy         = 3 // a by-value copy of a constructor result (the caller holds the decoder by value)
	RecvEmbedded     = 4 // the lower-level decoder embedded in a fresh higher-level constructor result (x.Base / x.Temporal / x.Temporal.Base)
	RecvNilAfterFail = 5 // typed nil receiver, right after another nil-receiver Decode of the same type that was rejected
	NJudgedModes     = 6 // the modes above are decoders "obtained from a constructor or used through a nil receiver": every property applies
	// Not judged (kept for the record of the seeded changes that need them, see DESIGN 9.6): decoders the client
	// has written to before their first Decode.  The statements quantify over decoders as a constructor or a nil
	// receiver provides them.
	RecvReplugged = 6 // embedded part(s) replaced by other fresh constructor results before Decode
	RecvPreset    = 7 // exported fields named in the string (and Ver) assigned other valid values before Decode
	RecvScribbled = 8 // every exported field overwritten (valid, invalid, out-of-range values) before Decode
)

// ModeNames describes the receiver modes (recorded in replay files).
var ModeNames = []string{
	"",
	"nil receiver",
	"constructor result queried before Decode",
	"by-value copy of a constructor result",
	"lower-level decoder embedded in a fresh higher-level constructor result",
	"nil receiver right after a rejected nil-receiver Decode of the same type",
	"re-plugged: embedded parts replaced by other fresh constructor results before Decode",
	"preset: exported fields named in the string (and Ver) assigned other valid values before Decode",
	"scribbled: every exported field overwritten before Decode",
}

// ModeByName is the inverse of ModeNames (RecvFresh when unknown).
func ModeByName(n string) int {
	for i, s := range ModeNames {
		if s == n && i > 0 {
			return i
		}
	}
	if strings.HasPrefix(n, "by-value") {
		return RecvCopy
	}
	return RecvFresh
}

func strHash(s string) uint32 {
	h := uint32(2166136261)
	for i := 0; i < len(s); i++ {
		h = (h ^ uint32(s[i])) * 16777619
	}
	return h
}

// rejectedPrelude is a vector of kind k's level that every decoder rejects (no A metric) while carrying
// non-default values for every optional metric of the level.
func rejectedPrelude(k Kind, h uint32) string {
	if k.V2() {
		return []string{"AV:L/AC:H/Au:M/C:P/I:P", "AV:L/AC:H/Au:M/C:P/I:P/E:POC/RL:TF/RC:UR", "AV:L/AC:H/Au:M/C:P/I:P/E:POC/RL:TF/RC:UR/CDP:LM/TD:M/CR:L/IR:L/AR:L"}[k.Level()]
	}
	v := "CVSS:3.0"
	if h&1 == 1 {
		v = "CVSS:3.1"
	}
	return v + []string{"/AV:L/AC:H/PR:L/UI:R/S:C/C:L/I:L", "/AV:L/AC:H/PR:L/UI:R/S:C/C:L/I:L/E:P/RL:T/RC:U", "/AV:L/AC:H/PR:L/UI:R/S:C/C:L/I:L/E:P/RL:T/RC:U/CR:L/IR:L/AR:L/MAV:P/MAC:H/MPR:H/MUI:R/MS:C/MC:L/MI:L/MA:L"}[k.Level()]
}

// preset assigns, on a fresh constructor result, another valid value to every exported field whose
// metric name occurs as a token name in s (a Decode that does not fail overwrites every one of them),
// and the other supported version to Ver.
func preset(recv Obj, s string) {
	h := strHash(s + "#preset")
	if !recv.Kind.V2() {
		recv.SetVer([]int{int(m3.V3_0), int(m3.V3_1)}[h&1])
	}
	n := recv.NFields()
	for _, tok := range strings.Split(s, "/") {
		name, _, ok := strings.Cut(tok, ":")
		if !ok {
			continue
		}
		for i := 0; i < n; i++ {
			h = h*1664525 + 1013904223
			if recv.Kind.V2() {
				if spec.V2Metrics[i].Name == name {
					recv.SetField(i, C2[i][int(h>>8)%len(C2[i])])
				}
			} else if spec.V3Metrics[i].Name == name {
				recv.SetField(i, C3[i][int(h>>8)%len(C3[i])])
			}
		}
	}
}

// Scribble overwrites Ver and every exported metric field of a constructor result with values drawn
// from h: valid ones, the unknown/invalid constant, out-of-range integers.
func Scribble(recv Obj, h uint32) {
	if !recv.Kind.V2() {
		recv.SetVer(int(h % 5))
	}
	for i, n := 0, recv.NFields(); i < n; i++ {
		h = h*1664525 + 1013904223
		var valid []int
		var unk int
		if recv.Kind.V2() {
			valid, unk = C2[i], U2[i]
		} else {
			valid, unk = C3[i], U3[i]
		}
		switch (h >> 8) % 8 {
		case 0:
			recv.SetField(i, unk)
		case 1:
			recv.SetField(i, int(h>>12)%300-20)
		case 2: // left as the constructor set it
		default:
			recv.SetField(i, valid[int(h>>12)%len(valid)])
		}
	}
}

// DecodeMode decodes s with a receiver obtained as the mode says.  The
// receiver is returned as well (the object a failed decode leaves behind).
func DecodeMode(k Kind, s string, mode int) (o Obj, recv Obj, err error, pan *Panic) {
	switch mode {
	case RecvNil:
		recv = NilObj(k)
	case RecvNilAfterFail:
		recv = NilObj(k)
		if _, _, p := DecodeOn(recv, rejectedPrelude(k, strHash(s))); p != nil {
			return Obj{Kind: k}, recv, nil, p
		}
	case RecvQueried:
		recv = New(k)
		x := recv.Observe()
		if x.Pan != nil {
			return Obj{Kind: k}, recv, nil, x.Pan
		}
		if bv, ok, p := recv.BaseView(); ok && p == nil && !bv.IsNil() {
			bv.Observe()
		}
		if tv, ok, p := recv.TemporalView(); ok && p == nil && !tv.IsNil() {
			tv.Observe()
		}
		recv.IsEmpty()
	case RecvCopy:
		recv = CopyOf(New(k))
	case RecvEmbedded:
		h := strHash(s+"#emb") >> 5
		recv = Obj{Kind: k}
		switch k {
		case K3B:
			if h&1 == 0 {
				recv.B3 = m3.NewTemporal().Base
			} else if h&2 == 0 {
				recv.B3 = m3.NewEnvironmental().Base
			} else {
				recv.B3 = m3.NewEnvironmental().BaseMetrics()
			}
		case K3T:
			if h&1 == 0 {
				recv.T3 = m3.NewEnvironmental().Temporal
			} else {
				recv.T3 = m3.NewEnvironmental().TemporalMetrics()
			}
		case K2B:
			if h&1 == 0 {
				recv.B2 = m2.NewTemporal().Base
			} else if h&2 == 0 {
				recv.B2 = m2.NewEnvironmental().Base
			} else {
				recv.B2 = m2.NewEnvironmental().BaseMetrics()
			}
		case K2T:
			if h&1 == 0 {
				recv.T2 = m2.NewEnvironmental().Temporal
			} else {
				recv.T2 = m2.NewEnvironmental().TemporalMetrics()
			}
		default:
			recv = New(k)
		}
	case RecvReplugged:
		h := strHash(s+"#plug") >> 5
		recv = New(k)
		switch k {
		case K3T:
			recv.T3.Base = m3.NewBase()
		case K3E:
			if h&1 == 0 {
				recv.E3.Temporal = m3.NewTemporal()
			}
			if h&1 == 1 || h&2 == 0 {
				recv.E3.Temporal.Base = m3.NewBase()
			}
		case K2T:
			recv.T2.Base = m2.NewBase()
		case K2E:
			if h&1 == 0 {
				recv.E2.Temporal = m2.NewTemporal()
			}
			if h&1 == 1 || h&2 == 0 {
				recv.E2.Temporal.Base = m2.NewBase()
			}
		}
	case RecvPreset:
		recv = New(k)
		preset(recv, s)
	case RecvScribbled:
		recv = New(k)
		Scribble(recv, strHash(s+"#scribble"))
	default:
		recv = New(k)
	}
	o, err, pan = DecodeOn(recv, s)
	return
}

// CopyOf returns a handle on a by-value copy of the struct o points to.
func CopyOf(o Obj) Obj {
	c := Obj{Kind: o.Kind}
	switch o.Kind {
	case K3B:
		x := *o.B3
		c.B3 = &x
	case K3T:
		x := *o.T3
		c.T3 = &x
	case K3E:
		x := *o.E3
		c.E3 = &x
	case K2B:
		x := *o.B2
		c.B2 = &x
	case K2T:
		x := *o.T2
		c.T2 = &x
	case K2E:
		x := *o.E2
		c.E2 = &x
	}
	return c
}

// Assemble builds a higher-level object of kind k around parts decoded separately; how selects the way:
//
//	0: constructor result, then its embedded lower decoder decodes s (x.Temporal.Decode(s) / x.Base.Decode(s))
//	1: constructor result whose exported embedded pointer is replaced by a separately decoded lower object
//	2: struct literal wrapping a separately decoded lower object (optional metrics of the top level Not Defined / absent)
//
// s must be a vector of the level just below k.  ok is false when the lower decode failed.
func Assemble(k Kind, s string, how int) (o Obj, ok bool, pan *Panic) {
	defer catch(&pan)
	o = New(k)
	switch k {
	case K3T:
		switch how {
		case 0:
			_, err := o.T3.Base.Decode(s)
			return o, err == nil, nil
		default:
			b, err := m3.NewBase().Decode(s)
			if err != nil {
				return o, false, nil
			}
			if how == 1 {
				o.T3.Base = b
			} else {
				o.T3 = &m3.Temporal{Base: b, E: m3.ExploitabilityNotDefined, RL: m3.RemediationLevelNotDefined, RC: m3.ReportConfidenceNotDefined}
			}
			return o, true, nil
		}
	case K3E:
		switch how {
		case 0:
			_, err := o.E3.Temporal.Decode(s)
			return o, err == nil, nil
		default:
			t, err := m3.NewTemporal().Decode(s)
			if err != nil {
				return o, false, nil
			}
			if how == 1 {
				o.E3.Temporal = t
			} else {
				fresh := m3.NewEnvironmental()
				lit := *fresh
				lit.Temporal = t
				o.E3 = &m3.Environmental{Temporal: t, CR: lit.CR, IR: lit.IR, AR: lit.AR, MAV: lit.MAV, MAC: lit.MAC, MPR: lit.MPR, MUI: lit.MUI, MS: lit.MS, MC: lit.MC, MI: lit.MI, MA: lit.MA}
			}
			return o, true, nil
		}
	case K2T:
		switch how {
		case 0:
			_, err := o.T2.Base.Decode(s)
			return o, err == nil, nil
		default:
			b, err := m2.NewBase().Decode(s)
			if err != nil {
				return o, false, nil
			}
			if how == 1 {
				o.T2.Base = b
			} else {
				o.T2 = &m2.Temporal{Base: b}
			}
			return o, true, nil
		}
	case K2E:
		switch how {
		case 0:
			_, err := o.E2.Temporal.Decode(s)
			return o, err == nil, nil
		default:
			t, err := m2.NewTemporal().Decode(s)
			if err != nil {
				return o, false, nil
			}
			if how == 1 {
				o.E2.Temporal = t
			} else {
				o.E2 = &m2.Environmental{Temporal: t}
			}
			return o, true, nil
		}
	}
	return o, false, nil
}

// AutoMode derives the receiver mode from the string itself (stable, so that a replay uses the same
// mode): half of the strings get a fresh constructor result, a quarter a nil receiver, a quarter a
// constructor result that was queried before Decode.
func AutoMode(s string) int {
	switch (strHash(s) >> 7) % 16 {
	case 5, 6, 7:
		return RecvNil
	case 8, 9, 10:
		return RecvQueried
	case 11, 12:
		return RecvCopy
	case 13, 14:
		return RecvEmbedded
	case 15:
		return RecvNilAfterFail
	}
	return RecvFresh
}

// DecodeAuto decodes s with the receiver mode AutoMode(s) gives.
func DecodeAuto(k Kind, s string) (Obj, error, *Panic) {
	o, _, err, pan := DecodeMode(k, s, AutoMode(s))
	return o, err, pan
}

// DecodeReused decodes first on a fresh receiver and then s on the SAME receiver.  ok is false when the
// second decode was rejected (the usual answer of the library: re-use is not supported).
func DecodeReused(k Kind, first, s string) (o Obj, ok bool, pan *Panic) {
	recv := New(k)
	if _, _, p := DecodeOn(recv, first); p != nil {
		return Obj{Kind: k}, false, p
	}
	o, err, p := DecodeOn(recv, s)
	if p != nil {
		return o, false, p
	}
	return o, err == nil && !o.IsNil(), nil
}

// Obs is one complete observation of an object's queries.
type Obs struct {
	Score  float64
	Sev    int
	SevStr string
	Err    error
	Enc    string
	EncErr error
	Str    string
	Pan    *Panic
	PanOp  string
}

// Score etc. are the single-query wrappers.
func (o Obj) Score() (f float64, pan *Panic) {
	defer catch(&pan)
	switch o.Kind {
	case K3B:
		f = o.B3.Score()
	case K3T:
		f = o.T3.Score()
	case K3E:
		f = o.E3.Score()
	case K2B:
		f = o.B2.Score()
	case K2T:
		f = o.T2.Score()
	case K2E:
		f = o.E2.Score()
	}
	return
}

func (o Obj) Severity() (n int, s string, pan *Panic) {
	defer catch(&pan)
	switch o.Kind {
	case K3B:
		v := o.B3.Severity()
		n, s = int(v), v.String()
	case K3T:
		v := o.T3.Severity()
		n, s = int(v), v.String()
	case K3E:
		v := o.E3.Severity()
		n, s = int(v), v.String()
	case K2B:
		v := o.B2.Severity()
		n, s = int(v), v.String()
	case K2T:
		v := o.T2.Severity()
		n, s = int(v), v.String()
	case K2E:
		v := o.E2.Severity()
		n, s = int(v), v.String()
	}
	return
}

func (o Obj) GetError() (err error, pan *Panic) {
	defer catch(&pan)
	switch o.Kind {
	case K3B:
		err = o.B3.GetError()
	case K3T:
		err = o.T3.GetError()
	case K3E:
		err = o.E3.GetError()
	case K2B:
		err = o.B2.GetError()
	case K2T:
		err = o.T2.GetError()
	case K2E:
		err = o.E2.GetError()
	}
	return
}

func (o Obj) Encode() (s string, err error, pan *Panic) {
	defer catch(&pan)
	switch o.Kind {
	case K3B:
		s, err = o.B3.Encode()
	case K3T:
		s, err = o.T3.Encode()
	case K3E:
		s, err = o.E3.Encode()
	case K2B:
		s, err = o.B2.Encode()
	case K2T:
		s, err = o.T2.Encode()
	case K2E:
		s, err = o.E2.Encode()
	}
	return
}

func (o Obj) String() (s string, pan *Panic) {
	defer catch(&pan)
	switch o.Kind {
	case K3B:
		s = o.B3.String()
	case K3T:
		s = o.T3.String()
	case K3E:
		s = o.E3.String()
	case K2B:
		s = o.B2.String()
	case K2T:
		s = o.T2.String()
	case K2E:
		s = o.E2.String()
	}
	return
}

// IsEmpty is the v2 temporal/environmental group query; ok is false for kinds
// that have no such method.
func (o Obj) IsEmpty() (empty bool, ok bool, pan *Panic) {
	defer catch(&pan)
	switch o.Kind {
	case K2T:
		return o.T2.IsEmpty(), true, nil
	case K2E:
		return o.E2.IsEmpty(), true, nil
	}
	return false, false, nil
}

// BaseView returns x.BaseMetrics() (every kind except v2 Base has it; v3 Base
// returns itself).
func (o Obj) BaseView() (b Obj, ok bool, pan *Panic) {
	defer catch(&pan)
	switch o.Kind {
	case K3B:
		return Obj{Kind: K3B, B3: o.B3.BaseMetrics()}, true, nil
	case K3T:
		return Obj{Kind: K3B, B3: o.T3.BaseMetrics()}, true, nil
	case K3E:
		return Obj{Kind: K3B, B3: o.E3.BaseMetrics()}, true, nil
	case K2T:
		return Obj{Kind: K2B, B2: o.T2.BaseMetrics()}, true, nil
	case K2E:
		return Obj{Kind: K2B, B2: o.E2.BaseMetrics()}, true, nil
	}
	return Obj{}, false, nil
}

// TemporalView returns x.TemporalMetrics() for the environmental kinds.
func (o Obj) TemporalView() (t Obj, ok bool, pan *Panic) {
	defer catch(&pan)
	switch o.Kind {
	case K3E:
		return Obj{Kind: K3T, T3: o.E3.TemporalMetrics()}, true, nil
	case K2E:
		return Obj{Kind: K2T, T2: o.E2.TemporalMetrics()}, true, nil
	}
	return Obj{}, false, nil
}

// EmbeddedBase / EmbeddedTemporal follow the exported embedded pointers
// (nil-safe).
func (o Obj) EmbeddedBase() (Obj, bool) {
	switch o.Kind {
	case K3T:
		if o.T3 != nil {
			return Obj{Kind: K3B, B3: o.T3.Base}, true
		}
	case K3E:
		if o.E3 != nil && o.E3.Temporal != nil {
			return Obj{Kind: K3B, B3: o.E3.Temporal.Base}, true
		}
	case K2T:
		if o.T2 != nil {
			return Obj{Kind: K2B, B2: o.T2.Base}, true
		}
	case K2E:
		if o.E2 != nil && o.E2.Temporal != nil {
			return Obj{Kind: K2B, B2: o.E2.Temporal.Base}, true
		}
	}
	return Obj{}, false
}

func (o Obj) EmbeddedTemporal() (Obj, bool) {
	switch o.Kind {
	case K3E:
		if o.E3 != nil {
			return Obj{Kind: K3T, T3: o.E3.Temporal}, true
		}
	case K2E:
		if o.E2 != nil {
			return Obj{Kind: K2T, T2: o.E2.Temporal}, true
		}
	}
	return Obj{}, false
}

// Observe runs every query once.
func (o Obj) Observe() Obs {
	var x Obs
	var p *Panic
	note := func(op string) {
		if p != nil && x.Pan == nil {
			x.Pan, x.PanOp = p, op
		}
	}
	x.Score, p = o.Score()
	note("Score")
	x.Sev, x.SevStr, p = o.Severity()
	note("Severity")
	x.Err, p = o.GetError()
	note("GetError")
	x.Enc, x.EncErr, p = o.Encode()
	note("Encode")
	x.Str, p = o.String()
	note("String")
	return x
}

// ---------------------------------------------------------------------------
// sentinels
// ---------------------------------------------------------------------------

// Sentinel is one exported sentinel error.
type Sentinel struct {
	Name string
	Err  error
}

// Sentinels lists the 11 exported sentinel errors.
var Sentinels = []Sentinel{
	{"ErrNullPointer", cvsserr.ErrNullPointer},
	{"ErrInvalidVector", cvsserr.ErrInvalidVector},
	{"ErrNotSupportVer", cvsserr.ErrNotSupportVer},
	{"ErrNotSupportMetric", cvsserr.ErrNotSupportMetric},
	{"ErrInvalidTemplate", cvsserr.ErrInvalidTemplate},
	{"ErrSameMetric", cvsserr.ErrSameMetric},
	{"ErrInvalidValue", cvsserr.ErrInvalidValue},
	{"ErrNoBaseMetrics", cvsserr.ErrNoBaseMetrics},
	{"ErrNoTemporalMetrics", cvsserr.ErrNoTemporalMetrics},
	{"ErrNoEnvironmentalMetrics", cvsserr.ErrNoEnvironmentalMetrics},
	{"ErrMisordered", cvsserr.ErrMisordered},
}

// Matches returns the names of all sentinels err matches under errors.Is.
func Matches(err error) []string {
	if err == nil {
		return nil
	}
	var out []string
	for _, s := range Sentinels {
		if errors.Is(err, s.Err) {
			out = append(out, s.Name)
		}
	}
	return out
}

// ErrClass is a compact, deterministic rendering of an error: the matching
// sentinel names (or "nil").
func ErrClass(err error) string {
	if err == nil {
		return "nil"
	}
	m := Matches(err)
	if len(m) == 0 {
		return "other:" + err.Error()
	}
	s := m[0]
	for _, x := range m[1:] {
		s += "+" + x
	}
	return s
}

// ErrText returns err.Error() guarded against panics, "" for nil.
func ErrText(err error) (s string) {
	if err == nil {
		return ""
	}
	defer func() {
		if r := recover(); r != nil {
			s = fmt.Sprint("PANIC in Error(): ", r)
		}
	}()
	return err.Error()
}

// ErrForeign is the cause a client attaches to errors it received (Annotate).
var ErrForeign = errors.New("verif-foreign-cause")

// Annotate does what a client may do with an error value it received: every *errs.Error of the chain
// gets a context entry and a cause of the client's own.  Returns the number of annotated values.
func Annotate(err error) (n int) {
	defer func() { recover() }()
	for e := err; e != nil && n < 16; {
		next := errors.Unwrap(e)
		if x, ok := e.(*errs.Error); ok && x != nil {
			x.SetContext("verif-annotated", "by the client")
			x.SetCause(ErrForeign)
			n++
		}
		e = next
	}
	return n
}

// Annotated reports whether err shows an annotation made by Annotate (on some other error value).
func Annotated(err error) (yes bool) {
	if err == nil {
		return false
	}
	defer func() { recover() }()
	if errors.Is(err, ErrForeign) {
		return true
	}
	return strings.Contains(fmt.Sprintf("%v|%+v", err, err), "verif-")
}

// JSONRoundTrip persists a v3 object with encoding/json and restores it into a zero struct (all metric
// fields and the embedded pointers are exported).  ok is false for v2 objects (their encoding depends on
// unexported bookkeeping that a restore cannot bring back) and when either step fails.
func JSONRoundTrip(o Obj) (c Obj, ok bool) {
	defer func() {
		if recover() != nil {
			ok = false
		}
	}()
	c = Obj{Kind: o.Kind}
	var b []byte
	var err error
	switch o.Kind {
	case K3B:
		if b, err = json.Marshal(o.B3); err == nil {
			c.B3 = new(m3.Base)
			err = json.Unmarshal(b, c.B3)
		}
	case K3T:
		if b, err = json.Marshal(o.T3); err == nil {
			c.T3 = new(m3.Temporal)
			err = json.Unmarshal(b, c.T3)
		}
	case K3E:
		if b, err = json.Marshal(o.E3); err == nil {
			c.E3 = new(m3.Environmental)
			err = json.Unmarshal(b, c.E3)
		}
	default:
		return c, false
	}
	return c, err == nil
}

// ErrDetail renders everything a client can see of an error value: the %+v form (which for *errs.Error is a
// JSON document with type, message, context and cause chain) after the plain text.
func ErrDetail(err error) (s string) {
	if err == nil {
		return ""
	}
	defer func() {
		if r := recover(); r != nil {
			s = fmt.Sprint("PANIC while formatting: ", r)
		}
	}()
	return fmt.Sprintf("%v|%+v", err, err)
}
