package lib

import (
	m2 "github.com/goark/go-cvss/v2/metric"
	m3 "github.com/goark/go-cvss/v3/metric"

	"verif/harness/spec"
)

// C3[m][ci] is the library constant (as int) that the specification's code
// spec.V3Metrics[m].Codes[ci] must decode to.  The association is made through
// the library's exported constant *names*, not through its code maps.
var C3 = [spec.N3][]int{
	spec.AV:  {int(m3.AttackVectorNetwork), int(m3.AttackVectorAdjacent), int(m3.AttackVectorLocal), int(m3.AttackVectorPhysical)},
	spec.AC:  {int(m3.AttackComplexityLow), int(m3.AttackComplexityHigh)},
	spec.PR:  {int(m3.PrivilegesRequiredNone), int(m3.PrivilegesRequiredLow), int(m3.PrivilegesRequiredHigh)},
	spec.UI:  {int(m3.UserInteractionNone), int(m3.UserInteractionRequired)},
	spec.S:   {int(m3.ScopeUnchanged), int(m3.ScopeChanged)},
	spec.C:   {int(m3.ConfidentialityImpactHigh), int(m3.ConfidentialityImpactLow), int(m3.ConfidentialityImpactNone)},
	spec.I:   {int(m3.IntegrityImpactHigh), int(m3.IntegrityImpactLow), int(m3.IntegrityImpactNone)},
	spec.A:   {int(m3.AvailabilityImpactHigh), int(m3.AvailabilityImpactLow), int(m3.AvailabilityImpactNone)},
	spec.E:   {int(m3.ExploitabilityNotDefined), int(m3.ExploitabilityHigh), int(m3.ExploitabilityFunctional), int(m3.ExploitabilityProofOfConcept), int(m3.ExploitabilityUnproven)},
	spec.RL:  {int(m3.RemediationLevelNotDefined), int(m3.RemediationLevelUnavailable), int(m3.RemediationLevelWorkaround), int(m3.RemediationLevelTemporaryFix), int(m3.RemediationLevelOfficialFix)},
	spec.RC:  {int(m3.ReportConfidenceNotDefined), int(m3.ReportConfidenceConfirmed), int(m3.ReportConfidenceReasonable), int(m3.ReportConfidenceUnknown)},
	spec.CR:  {int(m3.ConfidentialityRequirementNotDefined), int(m3.ConfidentialityRequirementHigh), int(m3.ConfidentialityRequirementMedium), int(m3.ConfidentialityRequirementLow)},
	spec.IR:  {int(m3.IntegrityRequirementNotDefined), int(m3.IntegrityRequirementHigh), int(m3.IntegrityRequirementMedium), int(m3.IntegrityRequirementLow)},
	spec.AR:  {int(m3.AvailabilityRequirementNotDefined), int(m3.AvailabilityRequirementHigh), int(m3.AvailabilityRequirementMedium), int(m3.AvailabilityRequirementLow)},
	spec.MAV: {int(m3.ModifiedAttackVectorNotDefined), int(m3.ModifiedAttackVectorNetwork), int(m3.ModifiedAttackVectorAdjacent), int(m3.ModifiedAttackVectorLocal), int(m3.ModifiedAttackVectorPhysical)},
	spec.MAC: {int(m3.ModifiedAttackComplexityNotDefined), int(m3.ModifiedAttackComplexityLow), int(m3.ModifiedAttackComplexityHigh)},
	spec.MPR: {int(m3.ModifiedPrivilegesRequiredNotDefined), int(m3.ModifiedPrivilegesRequiredNone), int(m3.ModifiedPrivilegesRequiredLow), int(m3.ModifiedPrivilegesRequiredHigh)},
	spec.MUI: {int(m3.ModifiedUserInteractionNotDefined), int(m3.ModifiedUserInteractionNone), int(m3.ModifiedUserInteractionRequired)},
	spec.MS:  {int(m3.ModifiedScopeNotDefined), int(m3.ModifiedScopeUnchanged), int(m3.ModifiedScopeChanged)},
	spec.MC:  {int(m3.ModifiedConfidentialityImpactNotDefined), int(m3.ModifiedConfidentialityImpactHigh), int(m3.ModifiedConfidentialityImpactLow), int(m3.ModifiedConfidentialityImpactNone)},
	spec.MI:  {int(m3.ModifiedIntegrityImpactNotDefined), int(m3.ModifiedIntegrityImpactHigh), int(m3.ModifiedIntegrityImpactLow), int(m3.ModifiedIntegrityImpactNone)},
	spec.MA:  {int(m3.ModifiedAvailabilityImpactNotDefined), int(m3.ModifiedAvailabilityImpactHigh), int(m3.ModifiedAvailabilityImpactLow), int(m3.ModifiedAvailabilityImpactNone)},
}

// U3[m] is the library's unknown/invalid constant of metric m.
var U3 = [spec.N3]int{
	spec.AV:  int(m3.AttackVectorUnknown),
	spec.AC:  int(m3.AttackComplexityUnknown),
	spec.PR:  int(m3.PrivilegesRequiredUnknown),
	spec.UI:  int(m3.UserInteractionUnknown),
	spec.S:   int(m3.ScopeUnknown),
	spec.C:   int(m3.ConfidentialityImpactUnknown),
	spec.I:   int(m3.IntegrityImpactUnknown),
	spec.A:   int(m3.AvailabilityImpactUnknown),
	spec.E:   int(m3.ExploitabilityInvalid),
	spec.RL:  int(m3.RemediationLevelInvalid),
	spec.RC:  int(m3.ReportConfidenceInvalid),
	spec.CR:  int(m3.ConfidentialityRequirementInvalid),
	spec.IR:  int(m3.IntegrityRequirementInvalid),
	spec.AR:  int(m3.AvailabilityRequirementInvalid),
	spec.MAV: int(m3.ModifiedAttackVectorInvalid),
	spec.MAC: int(m3.ModifiedAttackComplexityInvalid),
	spec.MPR: int(m3.ModifiedPrivilegesRequiredInvalid),
	spec.MUI: int(m3.ModifiedUserInteractionInvalid),
	spec.MS:  int(m3.ModifiedScopeInvalid),
	spec.MC:  int(m3.ModifiedConfidentialityImpactInvalid),
	spec.MI:  int(m3.ModifiedIntegrityImpactInvalid),
	spec.MA:  int(m3.ModifiedAvailabilityInvalid),
}

// Ver3[i] is the library constant for spec.V3Versions[i].
var Ver3 = []int{int(m3.V3_0), int(m3.V3_1)}

// VerUnknown3 is the unknown version constant.
var VerUnknown3 = int(m3.VUnknown)

// C2 / U2: same for v2.
var C2 = [spec.N2][]int{
	spec.V2AV:  {int(m2.AccessVectorLocal), int(m2.AccessVectorAdjacent), int(m2.AccessVectorNetwork)},
	spec.V2AC:  {int(m2.AccessComplexityHigh), int(m2.AccessComplexityMedium), int(m2.AccessComplexityLow)},
	spec.V2Au:  {int(m2.AuthenticationMultiple), int(m2.AuthenticationSingle), int(m2.AuthenticationNone)},
	spec.V2C:   {int(m2.ConfidentialityImpactNone), int(m2.ConfidentialityImpactPartial), int(m2.ConfidentialityImpactComplete)},
	spec.V2I:   {int(m2.IntegrityImpactNone), int(m2.IntegrityImpactPartial), int(m2.IntegrityImpactComplete)},
	spec.V2A:   {int(m2.AvailabilityImpactNone), int(m2.AvailabilityImpactPartial), int(m2.AvailabilityImpactComplete)},
	spec.V2E:   {int(m2.ExploitabilityUnproven), int(m2.ExploitabilityProofOfConcept), int(m2.ExploitabilityFunctional), int(m2.ExploitabilityHigh), int(m2.ExploitabilityNotDefined)},
	spec.V2RL:  {int(m2.RemediationLevelOfficialFix), int(m2.RemediationLevelTemporaryFix), int(m2.RemediationLevelWorkaround), int(m2.RemediationLevelUnavailable), int(m2.RemediationLevelNotDefined)},
	spec.V2RC:  {int(m2.ReportConfidenceUnconfirmed), int(m2.ReportConfidenceUncorroborated), int(m2.ReportConfidenceConfirmed), int(m2.ReportConfidenceNotDefined)},
	spec.V2CDP: {int(m2.CollateralDamagePotentialNon), int(m2.CollateralDamagePotentialLow), int(m2.CollateralDamagePotentialLowMedium), int(m2.CollateralDamagePotentialMediumHigh), int(m2.CollateralDamagePotentialHigh), int(m2.CollateralDamagePotentialNotDefined)},
	spec.V2TD:  {int(m2.TargetDistributionNon), int(m2.TargetDistributionLow), int(m2.TargetDistributionMedium), int(m2.TargetDistributionHigh), int(m2.TargetDistributionNotDefined)},
	spec.V2CR:  {int(m2.ConfidentialityRequirementLow), int(m2.ConfidentialityRequirementMedium), int(m2.ConfidentialityRequirementHigh), int(m2.ConfidentialityRequirementNotDefined)},
	spec.V2IR:  {int(m2.IntegrityRequirementLow), int(m2.IntegrityRequirementMedium), int(m2.IntegrityRequirementHigh), int(m2.IntegrityRequirementNotDefined)},
	spec.V2AR:  {int(m2.AvailabilityRequirementLow), int(m2.AvailabilityRequirementMedium), int(m2.AvailabilityRequirementHigh), int(m2.AvailabilityRequirementNotDefined)},
}

var U2 = [spec.N2]int{
	spec.V2AV:  int(m2.AccessVectorUnknown),
	spec.V2AC:  int(m2.AccessComplexityUnknown),
	spec.V2Au:  int(m2.AuthenticationUnknown),
	spec.V2C:   int(m2.ConfidentialityImpactUnknown),
	spec.V2I:   int(m2.IntegrityImpactUnknown),
	spec.V2A:   int(m2.AvailabilityImpactUnknown),
	spec.V2E:   int(m2.ExploitabilityInvalid),
	spec.V2RL:  int(m2.RemediationLevelInvalid),
	spec.V2RC:  int(m2.ReportConfidenceInvalid),
	spec.V2CDP: int(m2.CollateralDamagePotentialInvalid),
	spec.V2TD:  int(m2.TargetDistributionInvalid),
	spec.V2CR:  int(m2.ConfidentialityRequirementInvalid),
	spec.V2IR:  int(m2.IntegrityRequirementInvalid),
	spec.V2AR:  int(m2.AvailabilityRequirementInvalid),
}

// ---------------------------------------------------------------------------
// exported-field access (follows exported embedded pointers, nil-safe)
// ---------------------------------------------------------------------------

func (o Obj) b3() *m3.Base {
	switch o.Kind {
	case K3B:
		return o.B3
	case K3T:
		if o.T3 != nil {
			return o.T3.Base
		}
	case K3E:
		if o.E3 != nil && o.E3.Temporal != nil {
			return o.E3.Temporal.Base
		}
	}
	return nil
}
func (o Obj) t3() *m3.Temporal {
	switch o.Kind {
	case K3T:
		return o.T3
	case K3E:
		if o.E3 != nil {
			return o.E3.Temporal
		}
	}
	return nil
}
func (o Obj) b2() *m2.Base {
	switch o.Kind {
	case K2B:
		return o.B2
	case K2T:
		if o.T2 != nil {
			return o.T2.Base
		}
	case K2E:
		if o.E2 != nil && o.E2.Temporal != nil {
			return o.E2.Temporal.Base
		}
	}
	return nil
}
func (o Obj) t2() *m2.Temporal {
	switch o.Kind {
	case K2T:
		return o.T2
	case K2E:
		if o.E2 != nil {
			return o.E2.Temporal
		}
	}
	return nil
}

// NFields returns the number of metric fields of the object's level.
func (o Obj) NFields() int {
	if o.Kind.V2() {
		return spec.V2LevelEnd(o.Kind.Level())
	}
	return spec.V3LevelEnd(o.Kind.Level())
}

// Field returns exported metric field i (spec index) as int; ok=false when the
// holder is nil.
func (o Obj) Field(i int) (val int, ok bool) {
	if o.Kind.V2() {
		switch {
		case i < spec.V2E:
			b := o.b2()
			if b == nil {
				return 0, false
			}
			switch i {
			case spec.V2AV:
				return int(b.AV), true
			case spec.V2AC:
				return int(b.AC), true
			case spec.V2Au:
				return int(b.Au), true
			case spec.V2C:
				return int(b.C), true
			case spec.V2I:
				return int(b.I), true
			case spec.V2A:
				return int(b.A), true
			}
		case i < spec.V2CDP:
			t := o.t2()
			if t == nil {
				return 0, false
			}
			switch i {
			case spec.V2E:
				return int(t.E), true
			case spec.V2RL:
				return int(t.RL), true
			case spec.V2RC:
				return int(t.RC), true
			}
		default:
			e := o.E2
			if o.Kind != K2E || e == nil {
				return 0, false
			}
			switch i {
			case spec.V2CDP:
				return int(e.CDP), true
			case spec.V2TD:
				return int(e.TD), true
			case spec.V2CR:
				return int(e.CR), true
			case spec.V2IR:
				return int(e.IR), true
			case spec.V2AR:
				return int(e.AR), true
			}
		}
		return 0, false
	}
	switch {
	case i < spec.E:
		b := o.b3()
		if b == nil {
			return 0, false
		}
		switch i {
		case spec.AV:
			return int(b.AV), true
		case spec.AC:
			return int(b.AC), true
		case spec.PR:
			return int(b.PR), true
		case spec.UI:
			return int(b.UI), true
		case spec.S:
			return int(b.S), true
		case spec.C:
			return int(b.C), true
		case spec.I:
			return int(b.I), true
		case spec.A:
			return int(b.A), true
		}
	case i < spec.CR:
		t := o.t3()
		if t == nil {
			return 0, false
		}
		switch i {
		case spec.E:
			return int(t.E), true
		case spec.RL:
			return int(t.RL), true
		case spec.RC:
			return int(t.RC), true
		}
	default:
		e := o.E3
		if o.Kind != K3E || e == nil {
			return 0, false
		}
		switch i {
		case spec.CR:
			return int(e.CR), true
		case spec.IR:
			return int(e.IR), true
		case spec.AR:
			return int(e.AR), true
		case spec.MAV:
			return int(e.MAV), true
		case spec.MAC:
			return int(e.MAC), true
		case spec.MPR:
			return int(e.MPR), true
		case spec.MUI:
			return int(e.MUI), true
		case spec.MS:
			return int(e.MS), true
		case spec.MC:
			return int(e.MC), true
		case spec.MI:
			return int(e.MI), true
		case spec.MA:
			return int(e.MA), true
		}
	}
	return 0, false
}

// SetField assigns exported metric field i.
func (o Obj) SetField(i, val int) bool {
	if o.Kind.V2() {
		switch {
		case i < spec.V2E:
			b := o.b2()
			if b == nil {
				return false
			}
			switch i {
			case spec.V2AV:
				b.AV = m2.AccessVector(val)
			case spec.V2AC:
				b.AC = m2.AccessComplexity(val)
			case spec.V2Au:
				b.Au = m2.Authentication(val)
			case spec.V2C:
				b.C = m2.ConfidentialityImpact(val)
			case spec.V2I:
				b.I = m2.IntegrityImpact(val)
			case spec.V2A:
				b.A = m2.AvailabilityImpact(val)
			}
			return true
		case i < spec.V2CDP:
			t := o.t2()
			if t == nil {
				return false
			}
			switch i {
			case spec.V2E:
				t.E = m2.Exploitability(val)
			case spec.V2RL:
				t.RL = m2.RemediationLevel(val)
			case spec.V2RC:
				t.RC = m2.ReportConfidence(val)
			}
			return true
		default:
			e := o.E2
			if o.Kind != K2E || e == nil {
				return false
			}
			switch i {
			case spec.V2CDP:
				e.CDP = m2.CollateralDamagePotential(val)
			case spec.V2TD:
				e.TD = m2.TargetDistribution(val)
			case spec.V2CR:
				e.CR = m2.ConfidentialityRequirement(val)
			case spec.V2IR:
				e.IR = m2.IntegrityRequirement(val)
			case spec.V2AR:
				e.AR = m2.AvailabilityRequirement(val)
			}
			return true
		}
	}
	switch {
	case i < spec.E:
		b := o.b3()
		if b == nil {
			return false
		}
		switch i {
		case spec.AV:
			b.AV = m3.AttackVector(val)
		case spec.AC:
			b.AC = m3.AttackComplexity(val)
		case spec.PR:
			b.PR = m3.PrivilegesRequired(val)
		case spec.UI:
			b.UI = m3.UserInteraction(val)
		case spec.S:
			b.S = m3.Scope(val)
		case spec.C:
			b.C = m3.ConfidentialityImpact(val)
		case spec.I:
			b.I = m3.IntegrityImpact(val)
		case spec.A:
			b.A = m3.AvailabilityImpact(val)
		}
		return true
	case i < spec.CR:
		t := o.t3()
		if t == nil {
			return false
		}
		switch i {
		case spec.E:
			t.E = m3.Exploitability(val)
		case spec.RL:
			t.RL = m3.RemediationLevel(val)
		case spec.RC:
			t.RC = m3.ReportConfidence(val)
		}
		return true
	default:
		e := o.E3
		if o.Kind != K3E || e == nil {
			return false
		}
		switch i {
		case spec.CR:
			e.CR = m3.ConfidentialityRequirement(val)
		case spec.IR:
			e.IR = m3.IntegrityRequirement(val)
		case spec.AR:
			e.AR = m3.AvailabilityRequirement(val)
		case spec.MAV:
			e.MAV = m3.ModifiedAttackVector(val)
		case spec.MAC:
			e.MAC = m3.ModifiedAttackComplexity(val)
		case spec.MPR:
			e.MPR = m3.ModifiedPrivilegesRequired(val)
		case spec.MUI:
			e.MUI = m3.ModifiedUserInteraction(val)
		case spec.MS:
			e.MS = m3.ModifiedScope(val)
		case spec.MC:
			e.MC = m3.ModifiedConfidentialityImpact(val)
		case spec.MI:
			e.MI = m3.ModifiedIntegrityImpact(val)
		case spec.MA:
			e.MA = m3.ModifiedAvailabilityImpact(val)
		}
		return true
	}
}

// Ver returns the v3 version field.
func (o Obj) Ver() (int, bool) {
	b := o.b3()
	if b == nil {
		return 0, false
	}
	return int(b.Ver), true
}

// SetVer assigns the v3 version field.
func (o Obj) SetVer(v int) bool {
	b := o.b3()
	if b == nil {
		return false
	}
	b.Ver = m3.Version(v)
	return true
}

// Fields returns [Ver (v3 only, else -1), field 0 .. field n-1]; a field whose
// holder is nil is reported as -999.
func (o Obj) Fields() []int {
	n := o.NFields()
	out := make([]int, 0, n+1)
	if o.Kind.V2() {
		out = append(out, -1)
	} else if v, ok := o.Ver(); ok {
		out = append(out, v)
	} else {
		out = append(out, -999)
	}
	for i := 0; i < n; i++ {
		if v, ok := o.Field(i); ok {
			out = append(out, v)
		} else {
			out = append(out, -999)
		}
	}
	return out
}

// Build3 builds a v3 environmental object directly from exported fields (no
// Decode): constructor result with every exported field assigned.
func Build3(v *spec.V3) *m3.Environmental {
	e := m3.NewEnvironmental()
	Fill3(e, v)
	return e
}

// Fill3 assigns every exported field of e from v.
func Fill3(e *m3.Environmental, v *spec.V3) {
	e.Ver = m3.Version(Ver3[v.Ver])
	e.AV = m3.AttackVector(C3[spec.AV][v.M[spec.AV]])
	e.AC = m3.AttackComplexity(C3[spec.AC][v.M[spec.AC]])
	e.PR = m3.PrivilegesRequired(C3[spec.PR][v.M[spec.PR]])
	e.UI = m3.UserInteraction(C3[spec.UI][v.M[spec.UI]])
	e.S = m3.Scope(C3[spec.S][v.M[spec.S]])
	e.C = m3.ConfidentialityImpact(C3[spec.C][v.M[spec.C]])
	e.I = m3.IntegrityImpact(C3[spec.I][v.M[spec.I]])
	e.A = m3.AvailabilityImpact(C3[spec.A][v.M[spec.A]])
	e.E = m3.Exploitability(C3[spec.E][v.Val(spec.E)])
	e.RL = m3.RemediationLevel(C3[spec.RL][v.Val(spec.RL)])
	e.RC = m3.ReportConfidence(C3[spec.RC][v.Val(spec.RC)])
	e.CR = m3.ConfidentialityRequirement(C3[spec.CR][v.Val(spec.CR)])
	e.IR = m3.IntegrityRequirement(C3[spec.IR][v.Val(spec.IR)])
	e.AR = m3.AvailabilityRequirement(C3[spec.AR][v.Val(spec.AR)])
	e.MAV = m3.ModifiedAttackVector(C3[spec.MAV][v.Val(spec.MAV)])
	e.MAC = m3.ModifiedAttackComplexity(C3[spec.MAC][v.Val(spec.MAC)])
	e.MPR = m3.ModifiedPrivilegesRequired(C3[spec.MPR][v.Val(spec.MPR)])
	e.MUI = m3.ModifiedUserInteraction(C3[spec.MUI][v.Val(spec.MUI)])
	e.MS = m3.ModifiedScope(C3[spec.MS][v.Val(spec.MS)])
	e.MC = m3.ModifiedConfidentialityImpact(C3[spec.MC][v.Val(spec.MC)])
	e.MI = m3.ModifiedIntegrityImpact(C3[spec.MI][v.Val(spec.MI)])
	e.MA = m3.ModifiedAvailabilityImpact(C3[spec.MA][v.Val(spec.MA)])
}
