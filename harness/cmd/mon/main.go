// Command mon is the monitor binary: `mon run <Cnn> <quick|thorough>` runs the
// property's monitor against the library it was built with and writes
// evidence; `mon replay <Cnn> <file>` re-executes one recorded case.
package main

import (
	"encoding/json"
	"fmt"
	"os"
	"runtime"
	"runtime/debug"
	"runtime/pprof"
	"strconv"
	"strings"

	"verif/harness/mon"
)

func main() { os.Exit(realMain()) }

func realMain() int {
	if len(os.Args) < 2 {
		return usage()
	}
	// The workloads allocate heavily on a small live heap (the library builds
	// an error value with a stack trace for every token it offers to a lower
	// level); with the default GOGC that means thousands of GC cycles per
	// second and poor scaling.  Collect on a memory budget instead.
	if os.Getenv("GOGC") == "" && os.Getenv("GOMEMLIMIT") == "" {
		debug.SetGCPercent(-1)
		if os.Args[1] == "run" {
			debug.SetMemoryLimit(4 << 30)
		} else {
			// child processes (C15 runs up to 16 of them at once, C16 under the race detector) and tools
			debug.SetMemoryLimit(384 << 20)
		}
	}
	seed := int64(1)
	if s := os.Getenv("VERIF_SEED"); s != "" {
		if v, err := strconv.ParseInt(s, 10, 64); err == nil {
			seed = v
		}
	}
	dir := os.Getenv("VERIF_DIR")
	if dir == "" {
		dir = "/verif"
	}
	switch os.Args[1] {
	case "list":
		for _, id := range mon.IDs() {
			fmt.Println(id, mon.Get(id).Title)
		}
	case "run":
		if len(os.Args) < 4 {
			return usage()
		}
		m := mon.Get(os.Args[2])
		if m == nil {
			fmt.Println("INCONCLUSIVE unknown property", os.Args[2])
			return 3
		}
		tier := os.Args[3]
		if tier != "quick" && tier != "thorough" {
			return usage()
		}
		r := mon.NewRun(m.ID, tier, seed, dir)
		if pf := os.Getenv("VERIF_PPROF"); pf != "" {
			f, _ := os.Create(pf)
			pprof.StartCPUProfile(f)
			rc := m.Run(r)
			pprof.StopCPUProfile()
			f.Close()
			return rc
		}
		return m.Run(r)
	case "replay":
		if len(os.Args) < 4 {
			return usage()
		}
		m := mon.Get(os.Args[2])
		if m == nil || m.Replay == nil {
			fmt.Println("INCONCLUSIVE no replay for", os.Args[2])
			return 3
		}
		b, err := os.ReadFile(os.Args[3])
		if err != nil {
			fmt.Println("INCONCLUSIVE", err)
			return 3
		}
		var v mon.Violation
		if err := json.Unmarshal(b, &v); err != nil {
			fmt.Println("INCONCLUSIVE", err)
			return 3
		}
		if v.Seed != 0 {
			seed = v.Seed
		}
		if cp := v.Case.Args["child_process"]; strings.HasPrefix(cp, "GOMAXPROCS=") {
			// the violation was seen in a child process with this processor count
			var n int
			if fmt.Sscanf(cp, "GOMAXPROCS=%d", &n); n > 0 {
				runtime.GOMAXPROCS(n)
			}
		}
		r := mon.NewRun(m.ID, "quick", seed, dir)
		r.Replay = true
		m.Replay(r, v.Case)
		if r.Violations() > 0 {
			return 1
		}
		if cp := v.Case.Args["child_process"]; strings.HasPrefix(cp, "GOMAXPROCS=") && v.Case.Args["child_range"] != "" {
			// not reproduced from the single case: run the child process that saw it once more
			n, err := mon.ReplayInChild(m.ID, seed, strings.TrimPrefix(cp, "GOMAXPROCS="), v.Case.Args["child_range"])
			if n > 0 {
				fmt.Printf("VIOLATION property=%s replay=(replayed) the child process with %s reports %d violations again\n", m.ID, cp, n)
				return 1
			}
			if err != nil {
				fmt.Println("INCONCLUSIVE child process:", err)
				return 3
			}
		}
		fmt.Println("replay: the case holds on the current tree")
	default:
		if h := mon.Internal(os.Args[1]); h != nil {
			return h(os.Args[2:], seed, dir)
		}
		return usage()
	}
	return 0
}

func usage() int {
	fmt.Println("usage: mon run <Cnn> <quick|thorough> | mon replay <Cnn> <file> | mon list")
	return 3
}
