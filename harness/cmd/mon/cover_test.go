//go:build verifcover

package main

import (
	"os"
	"strings"
	"testing"
)

// TestMonitorUnderCoverage runs one monitor inside a test binary built with
// -cover -coverpkg=github.com/goark/go-cvss/..., so that the library statements
// the monitor's workload executes can be listed in the evidence.  It is only an
// observation aid: its verdict is ignored and it writes no evidence itself.
func TestMonitorUnderCoverage(t *testing.T) {
	args := strings.Fields(os.Getenv("VERIF_COVER_ARGS"))
	if len(args) == 0 || os.Getenv("VERIF_COVER_RUNNING") != "" {
		t.Skip("VERIF_COVER_ARGS not set (or already inside a coverage run)")
	}
	os.Setenv("VERIF_COVER_RUNNING", "1") // a re-executed test binary must stay inert
	os.Args = append([]string{"mon"}, args...)
	if rc := realMain(); rc != 0 {
		t.Logf("monitor returned %d under coverage (ignored)", rc)
	}
}
