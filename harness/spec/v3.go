// Package spec holds the reference models (trusted base of every oracle): the
// FIRST CVSS v2 / v3.0 / v3.1 tables and equations in exact arithmetic and the
// vector grammars.  Nothing here imports the library under test; every table is
// transcribed from the FIRST specification documents.
package spec

import (
	"math/big"
	"strings"
	"sync"
)

// ---------------------------------------------------------------------------
// v3 metric catalogue
// ---------------------------------------------------------------------------

// Levels.
const (
	LBase = 0
	LTemp = 1
	LEnv  = 2
)

// M3 describes one v3 metric.  Codes[i] is the i-th value code.  For temporal
// and environmental metrics Codes[0] is always "X" (Not Defined).  W holds the
// decimal weight of every code (as text, parsed into big.Rat); WC holds the
// weights under changed scope for (Modified) Privileges Required.
type M3 struct {
	Name  string
	Level int
	Codes []string
	W     []string
	WC    []string
}

// Indexes into V3Metrics.
const (
	AV = iota
	AC
	PR
	UI
	S
	C
	I
	A
	E
	RL
	RC
	CR
	IR
	AR
	MAV
	MAC
	MPR
	MUI
	MS
	MC
	MI
	MA
	N3
)

// V3Metrics is the catalogue in specification (= canonical encoding) order.
var V3Metrics = [N3]M3{
	{Name: "AV", Level: LBase, Codes: []string{"N", "A", "L", "P"}, W: []string{"0.85", "0.62", "0.55", "0.2"}},
	{Name: "AC", Level: LBase, Codes: []string{"L", "H"}, W: []string{"0.77", "0.44"}},
	{Name: "PR", Level: LBase, Codes: []string{"N", "L", "H"}, W: []string{"0.85", "0.62", "0.27"}, WC: []string{"0.85", "0.68", "0.5"}},
	{Name: "UI", Level: LBase, Codes: []string{"N", "R"}, W: []string{"0.85", "0.62"}},
	{Name: "S", Level: LBase, Codes: []string{"U", "C"}},
	{Name: "C", Level: LBase, Codes: []string{"H", "L", "N"}, W: []string{"0.56", "0.22", "0"}},
	{Name: "I", Level: LBase, Codes: []string{"H", "L", "N"}, W: []string{"0.56", "0.22", "0"}},
	{Name: "A", Level: LBase, Codes: []string{"H", "L", "N"}, W: []string{"0.56", "0.22", "0"}},
	{Name: "E", Level: LTemp, Codes: []string{"X", "H", "F", "P", "U"}, W: []string{"1", "1", "0.97", "0.94", "0.91"}},
	{Name: "RL", Level: LTemp, Codes: []string{"X", "U", "W", "T", "O"}, W: []string{"1", "1", "0.97", "0.96", "0.95"}},
	{Name: "RC", Level: LTemp, Codes: []string{"X", "C", "R", "U"}, W: []string{"1", "1", "0.96", "0.92"}},
	{Name: "CR", Level: LEnv, Codes: []string{"X", "H", "M", "L"}, W: []string{"1", "1.5", "1", "0.5"}},
	{Name: "IR", Level: LEnv, Codes: []string{"X", "H", "M", "L"}, W: []string{"1", "1.5", "1", "0.5"}},
	{Name: "AR", Level: LEnv, Codes: []string{"X", "H", "M", "L"}, W: []string{"1", "1.5", "1", "0.5"}},
	{Name: "MAV", Level: LEnv, Codes: []string{"X", "N", "A", "L", "P"}},
	{Name: "MAC", Level: LEnv, Codes: []string{"X", "L", "H"}},
	{Name: "MPR", Level: LEnv, Codes: []string{"X", "N", "L", "H"}},
	{Name: "MUI", Level: LEnv, Codes: []string{"X", "N", "R"}},
	{Name: "MS", Level: LEnv, Codes: []string{"X", "U", "C"}},
	{Name: "MC", Level: LEnv, Codes: []string{"X", "H", "L", "N"}},
	{Name: "MI", Level: LEnv, Codes: []string{"X", "H", "L", "N"}},
	{Name: "MA", Level: LEnv, Codes: []string{"X", "H", "L", "N"}},
}

// ModOf maps a Modified metric to its base metric.
var ModOf = map[int]int{MAV: AV, MAC: AC, MPR: PR, MUI: UI, MS: S, MC: C, MI: I, MA: A}

var modBaseArr = [N3]int{MAV: AV, MAC: AC, MPR: PR, MUI: UI, MS: S, MC: C, MI: I, MA: A}

// V3Index returns the metric index by name or -1.
func V3Index(name string) int {
	for i := range V3Metrics {
		if V3Metrics[i].Name == name {
			return i
		}
	}
	return -1
}

// V3CodeIndex returns the index of code in metric m or -1.
func V3CodeIndex(m int, code string) int {
	for i, c := range V3Metrics[m].Codes {
		if c == code {
			return i
		}
	}
	return -1
}

// V3LevelEnd returns one past the last metric index of a level.
func V3LevelEnd(level int) int {
	switch level {
	case LBase:
		return E
	case LTemp:
		return CR
	default:
		return N3
	}
}

// V3Versions lists the version labels; index 0 = 3.0, 1 = 3.1.
var V3Versions = []string{"3.0", "3.1"}

// V3 is a v3 vector in index form.  M[i] is the code index of metric i; for
// optional metrics -1 means "not written" (semantically Not Defined = 0).
type V3 struct {
	Ver int
	M   [N3]int8
}

// Val returns the semantic value index of metric i (absent == X == 0).
func (v *V3) Val(i int) int {
	if v.M[i] < 0 {
		return 0
	}
	return int(v.M[i])
}

// Eff returns the effective base-code index of base metric b (AV..A) after
// applying the Modified metric, if any is defined.
func (v *V3) Eff(mod int) int {
	b := modBaseArr[mod]
	if x := v.Val(mod); x > 0 {
		return x - 1
	}
	return int(v.M[b])
}

// Tokens returns the canonical-order token list of the metrics that are
// written (M[i] >= 0) up to the given level.
func (v *V3) Tokens(level int) []string {
	var out []string
	for i := 0; i < V3LevelEnd(level); i++ {
		if v.M[i] >= 0 {
			out = append(out, V3Metrics[i].Name+":"+V3Metrics[i].Codes[v.M[i]])
		}
	}
	return out
}

// Canonical returns the canonical encoding at a level: prefix, every metric of
// the level in specification order, X when not written.
func (v *V3) Canonical(level int) string {
	var sb strings.Builder
	sb.WriteString("CVSS:")
	sb.WriteString(V3Versions[v.Ver])
	for i := 0; i < V3LevelEnd(level); i++ {
		sb.WriteByte('/')
		sb.WriteString(V3Metrics[i].Name)
		sb.WriteByte(':')
		sb.WriteString(V3Metrics[i].Codes[v.Val(i)])
	}
	return sb.String()
}

// String renders the vector with the written metrics only, canonical order.
func (v *V3) String(level int) string {
	return "CVSS:" + V3Versions[v.Ver] + "/" + strings.Join(v.Tokens(level), "/")
}

// ---------------------------------------------------------------------------
// exact arithmetic
// ---------------------------------------------------------------------------

func rat(s string) *big.Rat {
	r, ok := new(big.Rat).SetString(s)
	if !ok {
		panic("spec: bad rational " + s)
	}
	return r
}

func rmul(a ...*big.Rat) *big.Rat {
	r := new(big.Rat).SetInt64(1)
	for _, x := range a {
		r.Mul(r, x)
	}
	return r
}
func radd(a, b *big.Rat) *big.Rat { return new(big.Rat).Add(a, b) }
func rsub(a, b *big.Rat) *big.Rat { return new(big.Rat).Sub(a, b) }
func rpow(a *big.Rat, n int) *big.Rat {
	r := new(big.Rat).SetInt64(1)
	for i := 0; i < n; i++ {
		r.Mul(r, a)
	}
	return r
}
func rmin(a, b *big.Rat) *big.Rat {
	if a.Cmp(b) <= 0 {
		return a
	}
	return b
}

var (
	rOne  = rat("1")
	rZero = rat("0")
	rTen  = rat("10")
)

// CeilTenths returns ceil(10*x) for a non-negative rational x (exact Roundup).
func CeilTenths(x *big.Rat) int {
	t := new(big.Rat).Mul(x, rTen)
	q := new(big.Int)
	m := new(big.Int)
	q.DivMod(t.Num(), t.Denom(), m) // floor for positive denominators
	if m.Sign() != 0 {
		q.Add(q, big.NewInt(1))
	}
	return int(q.Int64())
}

// AppendixATenths evaluates the v3.1 Appendix A integer round-up on an exact x:
// i = round(x*100000); if i%10000==0 -> i/100000 else (floor(i/10000)+1)/10.
func AppendixATenths(x *big.Rat) int {
	t := new(big.Rat).Mul(x, rat("100000"))
	// round half away from zero (x >= 0 here)
	t.Add(t, rat("1/2"))
	q := new(big.Int).Div(t.Num(), t.Denom())
	i := q.Int64()
	if i%10000 == 0 {
		return int(i / 10000)
	}
	return int(i/10000) + 1
}

// V3Weight returns the exact weight of code index ci of base/temporal/req metric m.
// For PR pass changed to select the table.
func V3Weight(m, ci int, changed bool) *big.Rat {
	md := &V3Metrics[m]
	if changed && md.WC != nil {
		return rat(md.WC[ci])
	}
	return rat(md.W[ci])
}

// v3ImpactExact computes the (modified) impact sub-score from ISS/MISS.
func v3Impact(iss *big.Rat, changed bool, ver int, env bool) *big.Rat {
	if !changed {
		return rmul(rat("6.42"), iss)
	}
	a := rmul(rat("7.52"), rsub(iss, rat("0.029")))
	var b *big.Rat
	if env && ver == 1 {
		b = rmul(rat("3.25"), rpow(rsub(rmul(iss, rat("0.9731")), rat("0.02")), 13))
	} else {
		b = rmul(rat("3.25"), rpow(rsub(iss, rat("0.02")), 15))
	}
	return rsub(a, b)
}

// V3BaseExact returns the exact base score in tenths and the Appendix-A
// variant (they are expected to coincide).  av..a are code indexes.
func V3BaseExact(av, ac, pr, ui, s, c, i, a int) (ceil, appA int) {
	changed := s == 1
	iss := rsub(rOne, rmul(rsub(rOne, V3Weight(C, c, false)), rsub(rOne, V3Weight(I, i, false)), rsub(rOne, V3Weight(A, a, false))))
	imp := v3Impact(iss, changed, 0, false)
	if imp.Sign() <= 0 {
		return 0, 0
	}
	ex := rmul(rat("8.22"), V3Weight(AV, av, false), V3Weight(AC, ac, false), V3Weight(PR, pr, changed), V3Weight(UI, ui, false))
	x := radd(imp, ex)
	if changed {
		x = rmul(rat("1.08"), x)
	}
	x = rmin(x, rTen)
	return CeilTenths(x), AppendixATenths(x)
}

// TemporalTenths returns ceil-to-tenth of (k/10)*e*rl*rc where e, rl, rc are
// code indexes of E, RL, RC; the second value is the Appendix-A result.
func TemporalTenths(k, e, rl, rc int) (int, int) {
	x := rmul(new(big.Rat).SetFrac64(int64(k), 10), V3Weight(E, e, false), V3Weight(RL, rl, false), V3Weight(RC, rc, false))
	return CeilTenths(x), AppendixATenths(x)
}

// ---- tables ---------------------------------------------------------------

// V3Tables holds precomputed exact results.
type V3Tables struct {
	// Base[av][ac][pr][ui][s][c][i][a] in tenths (identical for 3.0 and 3.1).
	Base [4][2][3][2][2][3][3][3]int16
	// EnvInner[ver][av][ac][pr][ui][s][cia 27][req 27]: the inner rounded-up
	// environmental value in tenths (before the temporal multiplication), 0
	// when the modified impact is not positive.  req index: weight class per
	// requirement 0 = 1.0 (X or M), 1 = 1.5 (H), 2 = 0.5 (L), combined as
	// cr*9+ir*3+ar; cia = c*9+i*3+a.
	EnvInner [2][4][2][3][2][2][27][27]int16
	// CapBound[ver-independent][cia][req]: the 0.915 cap was binding.
	CapBound [27][27]bool
	// Temp[k 0..100][e][rl][rc] = round-up of k/10 * weights, in tenths.
	Temp [101][5][5][4]int16
	// Disagreements between exact ceiling and Appendix A (expected 0).
	AppendixADiffs int
}

var (
	v3tabOnce sync.Once
	v3tab     *V3Tables
)

// ReqClass maps a requirement code index (X,H,M,L) to its weight class.
func ReqClass(ci int) int {
	switch ci {
	case 1:
		return 1 // H 1.5
	case 3:
		return 2 // L 0.5
	default:
		return 0 // X, M 1.0
	}
}

var reqClassW = []string{"1", "1.5", "0.5"}

// Tables3 builds (once) and returns the v3 tables.
func Tables3() *V3Tables {
	v3tabOnce.Do(func() {
		t := &V3Tables{}
		for av := 0; av < 4; av++ {
			for ac := 0; ac < 2; ac++ {
				for pr := 0; pr < 3; pr++ {
					for ui := 0; ui < 2; ui++ {
						for s := 0; s < 2; s++ {
							for c := 0; c < 3; c++ {
								for i := 0; i < 3; i++ {
									for a := 0; a < 3; a++ {
										k, k2 := V3BaseExact(av, ac, pr, ui, s, c, i, a)
										if k != k2 {
											t.AppendixADiffs++
										}
										t.Base[av][ac][pr][ui][s][c][i][a] = int16(k)
									}
								}
							}
						}
					}
				}
			}
		}
		// environmental: impact per (ver, scope, cia, req), exploitability per (av,ac,pr,ui,s)
		var imp [2][2][27][27]*big.Rat
		for cia := 0; cia < 27; cia++ {
			c, i, a := cia/9, cia/3%3, cia%3
			for req := 0; req < 27; req++ {
				cr, ir, ar := req/9, req/3%3, req%3
				miss := rsub(rOne, rmul(
					rsub(rOne, rmul(rat(reqClassW[cr]), V3Weight(C, c, false))),
					rsub(rOne, rmul(rat(reqClassW[ir]), V3Weight(I, i, false))),
					rsub(rOne, rmul(rat(reqClassW[ar]), V3Weight(A, a, false)))))
				capv := rat("0.915")
				if miss.Cmp(capv) > 0 {
					t.CapBound[cia][req] = true
					miss = capv
				}
				for ver := 0; ver < 2; ver++ {
					for s := 0; s < 2; s++ {
						imp[ver][s][cia][req] = v3Impact(miss, s == 1, ver, true)
					}
				}
			}
		}
		for av := 0; av < 4; av++ {
			for ac := 0; ac < 2; ac++ {
				for pr := 0; pr < 3; pr++ {
					for ui := 0; ui < 2; ui++ {
						for s := 0; s < 2; s++ {
							ex := rmul(rat("8.22"), V3Weight(AV, av, false), V3Weight(AC, ac, false), V3Weight(PR, pr, s == 1), V3Weight(UI, ui, false))
							for ver := 0; ver < 2; ver++ {
								for cia := 0; cia < 27; cia++ {
									for req := 0; req < 27; req++ {
										im := imp[ver][s][cia][req]
										if im.Sign() <= 0 {
											t.EnvInner[ver][av][ac][pr][ui][s][cia][req] = 0
											continue
										}
										x := radd(im, ex)
										if s == 1 {
											x = rmul(rat("1.08"), x)
										}
										x = rmin(x, rTen)
										k, k2 := CeilTenths(x), AppendixATenths(x)
										if k != k2 {
											t.AppendixADiffs++
										}
										t.EnvInner[ver][av][ac][pr][ui][s][cia][req] = int16(k)
									}
								}
							}
						}
					}
				}
			}
		}
		for k := 0; k <= 100; k++ {
			for e := 0; e < 5; e++ {
				for rl := 0; rl < 5; rl++ {
					for rc := 0; rc < 4; rc++ {
						a, b := TemporalTenths(k, e, rl, rc)
						if a != b {
							t.AppendixADiffs++
						}
						t.Temp[k][e][rl][rc] = int16(a)
					}
				}
			}
		}
		v3tab = t
	})
	return v3tab
}

// V3Scores are the three expected scores in tenths.
type V3Scores struct {
	Base, Temp, Env int
}

// Score3 evaluates a vector against the tables.
func Score3(v *V3) V3Scores {
	t := Tables3()
	b := int(t.Base[v.M[AV]][v.M[AC]][v.M[PR]][v.M[UI]][v.M[S]][v.M[C]][v.M[I]][v.M[A]])
	e, rl, rc := v.Val(E), v.Val(RL), v.Val(RC)
	tm := int(t.Temp[b][e][rl][rc])
	cia := v.Eff(MC)*9 + v.Eff(MI)*3 + v.Eff(MA)
	req := ReqClass(v.Val(CR))*9 + ReqClass(v.Val(IR))*3 + ReqClass(v.Val(AR))
	inner := int(t.EnvInner[v.Ver][v.Eff(MAV)][v.Eff(MAC)][v.Eff(MPR)][v.Eff(MUI)][v.Eff(MS)][cia][req])
	en := int(t.Temp[inner][e][rl][rc])
	return V3Scores{b, tm, en}
}

// EnvExactDirect evaluates the environmental score of v directly with big.Rat
// (no tables); used to re-validate the tables in every run.
func EnvExactDirect(v *V3) int {
	changed := v.Eff(MS) == 1
	w := func(m, ci int) *big.Rat { return V3Weight(m, ci, false) }
	miss := rsub(rOne, rmul(
		rsub(rOne, rmul(w(CR, v.Val(CR)), w(C, v.Eff(MC)))),
		rsub(rOne, rmul(w(IR, v.Val(IR)), w(I, v.Eff(MI)))),
		rsub(rOne, rmul(w(AR, v.Val(AR)), w(A, v.Eff(MA))))))
	miss = rmin(miss, rat("0.915"))
	im := v3Impact(miss, changed, v.Ver, true)
	if im.Sign() <= 0 {
		return 0
	}
	ex := rmul(rat("8.22"), w(AV, v.Eff(MAV)), w(AC, v.Eff(MAC)), V3Weight(PR, v.Eff(MPR), changed), w(UI, v.Eff(MUI)))
	x := radd(im, ex)
	if changed {
		x = rmul(rat("1.08"), x)
	}
	x = rmin(x, rTen)
	k := CeilTenths(x)
	y := rmul(new(big.Rat).SetFrac64(int64(k), 10), w(E, v.Val(E)), w(RL, v.Val(RL)), w(RC, v.Val(RC)))
	return CeilTenths(y)
}

// Sev3 is the v3 qualitative band of a score in tenths.
func Sev3(k int) string {
	switch {
	case k <= 0:
		return "None"
	case k <= 39:
		return "Low"
	case k <= 69:
		return "Medium"
	case k <= 89:
		return "High"
	default:
		return "Critical"
	}
}
