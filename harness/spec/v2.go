package spec

import (
	"math/big"
	"sort"
	"strings"
	"sync"
)

// ---------------------------------------------------------------------------
// v2 metric catalogue (CVSS v2 guide section 3.2)
// ---------------------------------------------------------------------------

// M2 describes one v2 metric.
type M2 struct {
	Name  string
	Level int
	Codes []string
	W     []string
}

// Indexes into V2Metrics.
const (
	V2AV = iota
	V2AC
	V2Au
	V2C
	V2I
	V2A
	V2E
	V2RL
	V2RC
	V2CDP
	V2TD
	V2CR
	V2IR
	V2AR
	N2
)

// V2Metrics in canonical order.
var V2Metrics = [N2]M2{
	{Name: "AV", Level: LBase, Codes: []string{"L", "A", "N"}, W: []string{"0.395", "0.646", "1"}},
	{Name: "AC", Level: LBase, Codes: []string{"H", "M", "L"}, W: []string{"0.35", "0.61", "0.71"}},
	{Name: "Au", Level: LBase, Codes: []string{"M", "S", "N"}, W: []string{"0.45", "0.56", "0.704"}},
	{Name: "C", Level: LBase, Codes: []string{"N", "P", "C"}, W: []string{"0", "0.275", "0.660"}},
	{Name: "I", Level: LBase, Codes: []string{"N", "P", "C"}, W: []string{"0", "0.275", "0.660"}},
	{Name: "A", Level: LBase, Codes: []string{"N", "P", "C"}, W: []string{"0", "0.275", "0.660"}},
	{Name: "E", Level: LTemp, Codes: []string{"U", "POC", "F", "H", "ND"}, W: []string{"0.85", "0.9", "0.95", "1", "1"}},
	{Name: "RL", Level: LTemp, Codes: []string{"OF", "TF", "W", "U", "ND"}, W: []string{"0.87", "0.9", "0.95", "1", "1"}},
	{Name: "RC", Level: LTemp, Codes: []string{"UC", "UR", "C", "ND"}, W: []string{"0.9", "0.95", "1", "1"}},
	{Name: "CDP", Level: LEnv, Codes: []string{"N", "L", "LM", "MH", "H", "ND"}, W: []string{"0", "0.1", "0.3", "0.4", "0.5", "0"}},
	{Name: "TD", Level: LEnv, Codes: []string{"N", "L", "M", "H", "ND"}, W: []string{"0", "0.25", "0.75", "1", "1"}},
	{Name: "CR", Level: LEnv, Codes: []string{"L", "M", "H", "ND"}, W: []string{"0.5", "1", "1.51", "1"}},
	{Name: "IR", Level: LEnv, Codes: []string{"L", "M", "H", "ND"}, W: []string{"0.5", "1", "1.51", "1"}},
	{Name: "AR", Level: LEnv, Codes: []string{"L", "M", "H", "ND"}, W: []string{"0.5", "1", "1.51", "1"}},
}

// V2Index returns the metric index by name or -1.
func V2Index(name string) int {
	for i := range V2Metrics {
		if V2Metrics[i].Name == name {
			return i
		}
	}
	return -1
}

// V2CodeIndex returns the index of code in metric m or -1.
func V2CodeIndex(m int, code string) int {
	for i, c := range V2Metrics[m].Codes {
		if c == code {
			return i
		}
	}
	return -1
}

// V2LevelEnd returns one past the last metric of a level.
func V2LevelEnd(level int) int {
	switch level {
	case LBase:
		return V2E
	case LTemp:
		return V2CDP
	default:
		return N2
	}
}

// V2 is a v2 vector in index form; HasT / HasE say whether the temporal and
// environmental groups are written.
type V2 struct {
	M    [N2]int8
	HasT bool
	HasE bool
}

// String is the canonical (and only accepted) spelling.
func (v *V2) String() string {
	var sb strings.Builder
	for i := 0; i < N2; i++ {
		if i >= V2E && i < V2CDP && !v.HasT {
			continue
		}
		if i >= V2CDP && !v.HasE {
			continue
		}
		if i > 0 {
			sb.WriteByte('/')
		}
		sb.WriteString(V2Metrics[i].Name)
		sb.WriteByte(':')
		sb.WriteString(V2Metrics[i].Codes[v.M[i]])
	}
	return sb.String()
}

// BaseString / TemporalString are the projections.
func (v *V2) BaseString() string {
	w := *v
	w.HasT, w.HasE = false, false
	return w.String()
}
func (v *V2) TemporalString() string {
	w := *v
	w.HasE = false
	return w.String()
}

// MinLevel is the lowest decoder level that admits the vector.
func (v *V2) MinLevel() int {
	if v.HasE {
		return LEnv
	}
	if v.HasT {
		return LTemp
	}
	return LBase
}

// ---------------------------------------------------------------------------
// admissible sets of tenths
// ---------------------------------------------------------------------------

// TSet is a small sorted set of scores in tenths.
type TSet []int

func (s TSet) Has(k int) bool {
	for _, x := range s {
		if x == k {
			return true
		}
	}
	return false
}

func (s TSet) add(k int) TSet {
	if s.Has(k) {
		return s
	}
	s = append(s, k)
	sort.Ints(s)
	return s
}

func (s TSet) union(o TSet) TSet {
	for _, k := range o {
		s = s.add(k)
	}
	return s
}

// floorDiv for possibly negative numerators, d > 0.
func floorDiv(n, d int64) (q, r int64) {
	q = n / d
	r = n % d
	if r < 0 {
		q--
		r += d
	}
	return
}

// roundSetInt returns the admissible roundings of n/d to an integer: nearest,
// or both neighbours when exactly half-way.
func roundSetInt(n, d int64) TSet {
	q, r := floorDiv(n, d)
	switch {
	case 2*r < d:
		return TSet{int(q)}
	case 2*r > d:
		return TSet{int(q + 1)}
	default:
		return TSet{int(q), int(q + 1)}
	}
}

// Round1Set returns the admissible tenths for exact x.
func Round1Set(x *big.Rat) TSet {
	t := new(big.Rat).Mul(x, rTen)
	q := new(big.Int)
	m := new(big.Int)
	q.DivMod(t.Num(), t.Denom(), m) // Euclidean: m >= 0
	two := new(big.Int).Mul(m, big.NewInt(2))
	c := two.Cmp(t.Denom())
	k := int(q.Int64())
	switch {
	case c < 0:
		return TSet{k}
	case c > 0:
		return TSet{k + 1}
	default:
		return TSet{k, k + 1}
	}
}

func v2w(m, ci int) *big.Rat { return rat(V2Metrics[m].W[ci]) }

// v2BaseEq evaluates ((0.6*impact)+(0.4*expl)-1.5)*f(impact) exactly.
func v2BaseEq(impact, expl *big.Rat) *big.Rat {
	if impact.Sign() == 0 {
		return new(big.Rat)
	}
	x := radd(rmul(rat("0.6"), impact), rmul(rat("0.4"), expl))
	x = rsub(x, rat("1.5"))
	return rmul(x, rat("1.176"))
}

// V2Expl is the exact exploitability sub-score.
func V2Expl(av, ac, au int) *big.Rat {
	return rmul(rat("20"), v2w(V2AV, av), v2w(V2AC, ac), v2w(V2Au, au))
}

// V2Impact is the exact impact sub-score.
func V2Impact(c, i, a int) *big.Rat {
	return rmul(rat("10.41"), rsub(rOne, rmul(rsub(rOne, v2w(V2C, c)), rsub(rOne, v2w(V2I, i)), rsub(rOne, v2w(V2A, a)))))
}

// V2AdjImpact is min(10, 10.41*(1-(1-C*CR)(1-I*IR)(1-A*AR))).
func V2AdjImpact(c, i, a, cr, ir, ar int) *big.Rat {
	x := rmul(rat("10.41"), rsub(rOne, rmul(
		rsub(rOne, rmul(v2w(V2C, c), v2w(V2CR, cr))),
		rsub(rOne, rmul(v2w(V2I, i), v2w(V2IR, ir))),
		rsub(rOne, rmul(v2w(V2A, a), v2w(V2AR, ar))))))
	return rmin(x, rTen)
}

// V2Tables holds the admissible base and adjusted-base sets.
type V2Tables struct {
	// Base[av][ac][au][c][i][a]
	Base [3][3][3][3][3][3]TSet
	// BaseExact is the exact base-equation value (for reports).
	BaseExact [3][3][3][3][3][3]string
	// Adj[av][ac][au][c][i][a][cr][ir][ar]: admissible adjusted base scores
	// (possibly negative); AdjNeg is true where the exact value is negative.
	Adj    [3][3][3][3][3][3][4][4][4]TSet
	AdjNeg [3][3][3][3][3][3][4][4][4]bool
	// CapBound[c][i][a][cr][ir][ar]: min(10, .) was binding.
	CapBound [3][3][3][4][4][4]bool
}

var (
	v2tabOnce sync.Once
	v2tab     *V2Tables
)

// Tables2 builds (once) and returns the v2 tables.
func Tables2() *V2Tables {
	v2tabOnce.Do(func() {
		t := &V2Tables{}
		var expl [3][3][3]*big.Rat
		for av := 0; av < 3; av++ {
			for ac := 0; ac < 3; ac++ {
				for au := 0; au < 3; au++ {
					expl[av][ac][au] = V2Expl(av, ac, au)
				}
			}
		}
		for c := 0; c < 3; c++ {
			for i := 0; i < 3; i++ {
				for a := 0; a < 3; a++ {
					imp := V2Impact(c, i, a)
					var adj [4][4][4]*big.Rat
					for cr := 0; cr < 4; cr++ {
						for ir := 0; ir < 4; ir++ {
							for ar := 0; ar < 4; ar++ {
								raw := rmul(rat("10.41"), rsub(rOne, rmul(
									rsub(rOne, rmul(v2w(V2C, c), v2w(V2CR, cr))),
									rsub(rOne, rmul(v2w(V2I, i), v2w(V2IR, ir))),
									rsub(rOne, rmul(v2w(V2A, a), v2w(V2AR, ar))))))
								if raw.Cmp(rTen) > 0 {
									t.CapBound[c][i][a][cr][ir][ar] = true
								}
								adj[cr][ir][ar] = rmin(raw, rTen)
							}
						}
					}
					for av := 0; av < 3; av++ {
						for ac := 0; ac < 3; ac++ {
							for au := 0; au < 3; au++ {
								x := v2BaseEq(imp, expl[av][ac][au])
								t.Base[av][ac][au][c][i][a] = Round1Set(x)
								t.BaseExact[av][ac][au][c][i][a] = x.FloatString(6)
								for cr := 0; cr < 4; cr++ {
									for ir := 0; ir < 4; ir++ {
										for ar := 0; ar < 4; ar++ {
											y := v2BaseEq(adj[cr][ir][ar], expl[av][ac][au])
											// intermediate values are NOT clamped: the property only lets the final
											// environmental result be reported as 0 when the equation itself is negative
											if y.Sign() < 0 {
												t.AdjNeg[av][ac][au][c][i][a][cr][ir][ar] = true
											}
											t.Adj[av][ac][au][c][i][a][cr][ir][ar] = Round1Set(y)
										}
									}
								}
							}
						}
					}
				}
			}
		}
		v2tab = t
	})
	return v2tab
}

// weights in integer units for the downstream integer arithmetic
var (
	v2EW   = []int64{85, 90, 95, 100, 100}  // hundredths
	v2RLW  = []int64{87, 90, 95, 100, 100}  // hundredths
	v2RCW  = []int64{90, 95, 100, 100}      // hundredths
	v2CDPW = []int64{0, 1, 3, 4, 5, 0}      // tenths
	v2TDW  = []int64{0, 25, 75, 100, 100}   // hundredths
)

// V2TemporalSet returns the admissible temporal scores for an admissible set
// of (adjusted) base scores (no clamping of negative values).
func V2TemporalSet(b TSet, e, rl, rc int) TSet {
	var out TSet
	for _, k := range b {
		out = out.union(roundSetInt(int64(k)*v2EW[e]*v2RLW[rl]*v2RCW[rc], 1000000))
	}
	return out
}

// V2EnvSet returns the admissible environmental scores from admissible
// adjusted temporal scores.  Where the final equation itself is negative the
// set holds that negative tenth and 0, and neg is true.
func V2EnvSet(at TSet, cdp, td int) (out TSet, neg bool) {
	for _, k := range at {
		n := (10*int64(k) + (100-int64(k))*v2CDPW[cdp]) * v2TDW[td]
		out = out.union(roundSetInt(n, 1000))
		if n < 0 {
			out = out.add(0)
			neg = true
		}
	}
	return out, neg
}

// V2Expect bundles what the model admits for one vector.
type V2Expect struct {
	Base   TSet
	Temp   TSet // == Base when the temporal group is absent
	Env    TSet // == Temp when the environmental group is absent
	AdjB   TSet // admissible adjusted base (only with HasE)
	EnvNeg bool // the specification's environmental equation itself is negative (for some admissible rounding)
}

// Expect2 evaluates the model on v.
func Expect2(v *V2) V2Expect {
	t := Tables2()
	m := v.M
	var x V2Expect
	x.Base = t.Base[m[V2AV]][m[V2AC]][m[V2Au]][m[V2C]][m[V2I]][m[V2A]]
	if v.HasT {
		x.Temp = V2TemporalSet(x.Base, int(m[V2E]), int(m[V2RL]), int(m[V2RC]))
	} else {
		x.Temp = x.Base
	}
	if !v.HasE {
		x.Env = x.Temp
		return x
	}
	x.AdjB = t.Adj[m[V2AV]][m[V2AC]][m[V2Au]][m[V2C]][m[V2I]][m[V2A]][m[V2CR]][m[V2IR]][m[V2AR]]
	x.Env, x.EnvNeg = V2EnvFromAdjNeg(x.AdjB, v)
	return x
}

// V2EnvFromAdj chains adjusted base -> adjusted temporal -> environmental.
func V2EnvFromAdj(adj TSet, v *V2) TSet {
	s, _ := V2EnvFromAdjNeg(adj, v)
	return s
}

// V2EnvFromAdjNeg also reports whether the final equation was negative.
func V2EnvFromAdjNeg(adj TSet, v *V2) (TSet, bool) {
	at := adj
	if v.HasT {
		at = V2TemporalSet(adj, int(v.M[V2E]), int(v.M[V2RL]), int(v.M[V2RC]))
	}
	return V2EnvSet(at, int(v.M[V2CDP]), int(v.M[V2TD]))
}

// Sev2 is the v2 band of a score in tenths (k >= 0).
func Sev2(k int) string {
	switch {
	case k < 0:
		return "Unknown"
	case k <= 39:
		return "Low"
	case k <= 69:
		return "Medium"
	default:
		return "High"
	}
}
