package spec

import (
	"strings"
)

// Defect is a class of defect a rejected vector can have (one per sentinel the
// decoders may report).
type Defect int

const (
	DInvalidVector Defect = iota
	DNotSupportVer
	DNotSupportMetric
	DSameMetric
	DInvalidValue
	DNoBase
	DNoTemporal
	DNoEnv
	DMisordered
	NDefects
)

var DefectNames = [NDefects]string{
	"ErrInvalidVector", "ErrNotSupportVer", "ErrNotSupportMetric", "ErrSameMetric",
	"ErrInvalidValue", "ErrNoBaseMetrics", "ErrNoTemporalMetrics", "ErrNoEnvironmentalMetrics", "ErrMisordered",
}

func (d Defect) String() string { return DefectNames[d] }

// DefectSet is a bit set of Defect.
type DefectSet uint16

func (s DefectSet) Has(d Defect) bool     { return s&(1<<uint(d)) != 0 }
func (s *DefectSet) Add(d Defect)         { *s |= 1 << uint(d) }
func (s DefectSet) Empty() bool           { return s == 0 }
func (s DefectSet) Names() []string {
	var out []string
	for d := Defect(0); d < NDefects; d++ {
		if s.Has(d) {
			out = append(out, DefectNames[d])
		}
	}
	return out
}

func isAlpha(s string) bool {
	for i := 0; i < len(s); i++ {
		c := s[i]
		if !(c >= 'A' && c <= 'Z' || c >= 'a' && c <= 'z') {
			return false
		}
	}
	return true
}

func isVersionShape(s string) bool {
	// digits(.digits)*
	if s == "" {
		return false
	}
	prevDot := true
	for i := 0; i < len(s); i++ {
		c := s[i]
		switch {
		case c >= '0' && c <= '9':
			prevDot = false
		case c == '.':
			if prevDot {
				return false
			}
			prevDot = true
		default:
			return false
		}
	}
	return !prevDot
}

// Parsed3 is the result of the reference v3 recogniser.
type Parsed3 struct {
	Accept  bool
	Defects DefectSet // defects present in the string (generous where ambiguous)
	V       V3        // valid when Accept
	Order   []int     // metric indexes in the order written (when Accept)
}

// Parse3 is the reference recogniser for the v3 language of a decoder level,
// written from the property text: prefix CVSS:3.0|CVSS:3.1, then '/'-separated
// Name:Value tokens, names within the level, unique, value in the metric's code
// set, all eight base metrics present.
func Parse3(s string, level int) Parsed3 {
	var p Parsed3
	for i := range p.V.M {
		p.V.M[i] = -1
	}
	parts := strings.Split(s, "/")
	pp := strings.Split(parts[0], ":")
	if len(pp) != 2 || pp[0] != "CVSS" {
		p.Defects.Add(DInvalidVector)
	} else {
		switch pp[1] {
		case "3.0":
			p.V.Ver = 0
		case "3.1":
			p.V.Ver = 1
		default:
			p.Defects.Add(DNotSupportVer)
			if !isVersionShape(pp[1]) {
				p.Defects.Add(DInvalidVector)
			}
		}
	}
	end := V3LevelEnd(level)
	var seen [N3]bool
	unsupSeen := map[string]bool{}
	for _, t := range parts[1:] {
		tt := strings.Split(t, ":")
		if len(tt) != 2 || tt[0] == "" || tt[1] == "" {
			p.Defects.Add(DInvalidVector)
			continue
		}
		name, val := tt[0], tt[1]
		idx := V3Index(name)
		if idx < 0 || idx >= end {
			p.Defects.Add(DNotSupportMetric)
			if unsupSeen[name] {
				p.Defects.Add(DSameMetric)
			}
			unsupSeen[name] = true
			if !isAlpha(name) || !isAlpha(val) {
				p.Defects.Add(DInvalidVector)
			}
			continue
		}
		ci := V3CodeIndex(idx, val)
		if seen[idx] {
			p.Defects.Add(DSameMetric)
			if ci < 0 {
				p.Defects.Add(DInvalidValue)
			}
			continue
		}
		seen[idx] = true
		if ci < 0 {
			p.Defects.Add(DInvalidValue)
			if !isAlpha(val) {
				p.Defects.Add(DInvalidVector)
			}
			continue
		}
		p.V.M[idx] = int8(ci)
		p.Order = append(p.Order, idx)
	}
	for i := AV; i <= A; i++ {
		if p.V.M[i] < 0 {
			p.Defects.Add(DNoBase)
			break
		}
	}
	p.Accept = p.Defects.Empty()
	return p
}

// Parsed2 is the result of the reference v2 recogniser.
type Parsed2 struct {
	Accept  bool
	Defects DefectSet
	V       V2
}

// Parse2 is the reference recogniser for the v2 language of a decoder level:
// AV,AC,Au,C,I,A in that order, optionally the complete group E,RL,RC,
// optionally the complete group CDP,TD,CR,IR,AR, '/'-joined, valid codes, and
// each group only at a decoder whose level includes it.
func Parse2(s string, level int) Parsed2 {
	var p Parsed2
	var m [N2]int8
	for i := range m {
		m[i] = -1
	}
	end := V2LevelEnd(level)
	var seen [N2]bool
	var order []int
	unsupSeen := map[string]bool{}
	tokenDefect := false
	for _, t := range strings.Split(s, "/") {
		tt := strings.Split(t, ":")
		if len(tt) != 2 || tt[0] == "" || tt[1] == "" {
			p.Defects.Add(DInvalidVector)
			tokenDefect = true
			continue
		}
		name, val := tt[0], tt[1]
		idx := V2Index(name)
		if idx < 0 || idx >= end {
			p.Defects.Add(DNotSupportMetric)
			tokenDefect = true
			if unsupSeen[name] {
				p.Defects.Add(DSameMetric)
			}
			unsupSeen[name] = true
			if !isAlpha(name) || !isAlpha(val) {
				p.Defects.Add(DInvalidVector)
			}
			continue
		}
		ci := V2CodeIndex(idx, val)
		if seen[idx] {
			p.Defects.Add(DSameMetric)
			tokenDefect = true
			if ci < 0 {
				p.Defects.Add(DInvalidValue)
			}
			continue
		}
		seen[idx] = true
		if ci < 0 {
			p.Defects.Add(DInvalidValue)
			tokenDefect = true
			if !isAlpha(val) {
				p.Defects.Add(DInvalidVector)
			}
			continue
		}
		m[idx] = int8(ci)
		order = append(order, idx)
	}
	count := func(lo, hi int) int {
		n := 0
		for i := lo; i < hi; i++ {
			if m[i] >= 0 {
				n++
			}
		}
		return n
	}
	nb, nt, ne := count(V2AV, V2E), count(V2E, V2CDP), count(V2CDP, N2)
	if nb != 6 {
		p.Defects.Add(DNoBase)
	}
	if nt != 0 && nt != 3 {
		p.Defects.Add(DNoTemporal)
	}
	if ne != 0 && ne != 5 {
		p.Defects.Add(DNoEnv)
	}
	// a seen-but-invalid metric also leaves its group incomplete from the
	// decoder's point of view; the token defect is already recorded.
	sorted := true
	for i := 1; i < len(order); i++ {
		if order[i] < order[i-1] {
			sorted = false
		}
	}
	if !sorted {
		p.Defects.Add(DMisordered)
	}
	_ = tokenDefect
	p.Accept = p.Defects.Empty()
	if p.Accept {
		p.V.M = m
		p.V.HasT = nt == 3
		p.V.HasE = ne == 5
		for i := range p.V.M {
			if p.V.M[i] < 0 {
				p.V.M[i] = 0
			}
		}
	}
	return p
}
