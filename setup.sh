#!/bin/bash
# setup_cmd: offline; checks the toolchain and warms the build cache of the harness against /repo.
set -e
cd "$(dirname "$0")"
export GOFLAGS=-mod=mod GOPROXY=off GOSUMDB=off GOTOOLCHAIN=local
go version
mkdir -p out/build out/setup evidence
B=out/build/setup.$$
mkdir -p $B
trap 'rm -rf "$B"' EXIT
sed "s#=> /repo#=> ${VERIF_REPO:-/repo}#" harness/go.mod > $B/go.mod
cp "${VERIF_REPO:-/repo}/go.sum" $B/go.sum
(cd harness && go build -modfile="../$B/go.mod" -tags verif -o "../$B/mon" ./cmd/mon)
(cd harness && go build -modfile="../$B/go.mod" -tags verif -race -o "../$B/mon-race" ./cmd/mon)
$B/mon list | head -40
echo "setup ok"
