import json,os,glob
res={}
for l in open('/verif/seeded/RESULTS.txt'):
    k,v=l.split(':',1); res[k.strip()]=v.strip()
N={
"C03-r2-1":("v3.0 vectors rounded with math.Ceil(x*10)/10","v3.0 only, some temporal weight != 1, product a hair above a tenth (18,880 of 16.6 M grid points)","caught by the first version of the check"),
"C03-r2-2":("Environmental.Score memoised with a key that holds the embedded *Temporal by pointer","score read once, then a base/temporal field or Ver changes, then Score() again","caught by the first version of the check (the struct-based enumerations refill one object)"),
"C03-r2-3":("lock-free direct-mapped memo for the power term with separate key/value atomics","two goroutines scoring colliding (version, MISS) classes at the same time; no race report","caught by the first version of the check (its 16 workers score concurrently); also C16"),
"C05-r2-1":("Base.score clamps at 0 (same idea as C05-1)","AV:L/AC:H/Au:M, one Partial impact with requirement L, CDP set, TD not N","caught (after the C05-1 oracle correction)"),
"C05-r2-2":("adjusted base memoised in a package-level map with an overflowing 2-bit key","a colliding requirement combination scored earlier in the same process","caught by the first version of the check"),
"C05-r2-3":("Environmental.Score sets/defers a requirements pointer on the shared Base","two goroutines calling Score() on the same decoded object","sequentially invisible: not visible to C05; caught by C16 (race report and concurrent != sequential)"),
"C07-r2-1":("128-entry reverse lookup table indexed with s[0]&0x7f","a value byte equal to a valid E/RL/RC code with the high bit set","missed first (edit alphabet had no high-bit relatives of the replaced byte); caught after byte-level relatives (|0x80, ^0x20, +-1, 0x80, 0xff) were added to the character edits"),
"C07-r2-2":("nil-receiver Decode borrows instances from a sync.Pool; reset() clears only named fields","nil receiver, an earlier rejection for an invalid temporal/environmental value, then a valid vector omitting that metric","caught by the first version of the check (nil receivers alternate with failing decodes)"),
"C07-r2-3":("token slices recycled through a sync.Pool while still in use","several goroutines decoding different vectors at once","caught by the first version of the check (16 concurrent workers); also C16"),
"C08-r2-1":("v2 Environmental.IsEmpty by values","partial environmental group whose present values are all ND","caught by the first version of the check"),
"C08-r2-2":("failed Decode forgets names but keeps values","a failing Decode followed by a partial group on the SAME decoder object","NOT CLAIMED: re-use of a decoder object for a second Decode is outside every property (on the unchanged library a re-used decoder already rejects valid vectors with 'exist same metric'); see DESIGN section 5"),
"C08-r2-3":("Base.Encode appends into a package-level pre-sized slice","two goroutines decoding at once with their own decoders","caught by the first version of the check (16 concurrent workers); also C16"),
"C10-r2-1":("v2 order checked per group only","groups interleaved across a group boundary are accepted and re-encoded canonically","missed by the first C10 (its corpus held reference-valid vectors only); caught after every LIBRARY-accepted string of the edit workloads is round-tripped; C08 catches it too"),
"C10-r2-2":("pooled encode buffer put back twice on Environmental.Encode's error path","Encode()/String() on an invalid *Environmental earlier, then two goroutines encoding concurrently","needs concurrency: caught by C16, and by C10 since its workers run concurrently (incl. the accepted-strings phase)"),
"C10-r2-3":("cached Base vector not cleared when Temporal/Environmental.Decode assigns Ver","accepted Decode, Encode, then a SECOND accepted Decode with another version on the same object","NOT CLAIMED: re-use of a decoder object (incremental second Decode) is outside every property; see DESIGN section 5"),
"C11-r2-1":("hard error wraps the deferred unsupported-metric error as cause","environmental decoder, a garbage metric name followed later by a hard defect: two sentinels match","caught by the first version of the check"),
"C11-r2-2":("v2 Decode splits the TrimRight'ed vector but compares the untrimmed one","v2 vector ending in CR/LF is reported as misordered","caught by the first version of the check"),
"C11-r2-3":("GetError verdict cached in Base, reset only by Base.Decode","a fresh Temporal/Environmental decoder queried BEFORE its first Decode","missed first (decoders were never queried before Decode); caught after the receiver mode 'constructor result queried before Decode' was added to C07/C08/C11/C12 (also C15)"),
"C12-r2-1":("Base.Decode clears *bm = Base{} on the unsupported-metric path","a first decode failing with ErrNotSupportMetric, then a second decode on the same receiver panics","caught by the first version of the check (second Decode on a used receiver: no panic)"),
"C12-r2-2":("[32]string scratch array with an off-by-one guard","any string with exactly 32 '/' panics with index out of range","missed first (no workload string had exactly 33 components); caught after the count/length threshold sweep (every n up to 130 and around powers of two) was added"),
"C12-r2-3":("v2 Temporal.IsEmpty by values","one temporal field reset to invalid while the other two are ND: GetError nil, non-zero score","missed first (the oracle asked the library's own IsEmpty() whether the group is present); caught after group presence is taken from the decoded vector"),
"C15-r2-1":("package-level score cache keyed by 68 bits packed into a uint64","two vectors differing only in version or the high AV bits, scored in one process","caught by the first version of the check"),
"C15-r2-2":("Score() swaps S for the formula and restores it with defer","other goroutines reading the same object while one is inside Score()","sequentially invisible: not visible to C15's single-goroutine histories; caught by C16"),
"C15-r2-3":("GetError verdict cached in Base, reset only by Base.Decode","any query on a Temporal/Environmental object whose base part is incomplete, then a Decode completing it","missed first; caught after C15 decodes on a queried constructor result and compares with an untouched one (also C07/C11/C12 receiver mode)"),
"C16-r2-1":("ExportWith's pooled buffer is put back twice after a reader error","a reader failing mid-stream earlier, then two goroutines in ExportWith at once","missed first (no failing readers in the concurrent workload); caught after reader-fault exports were added to C16's operation mix"),
"C16-r2-2":("English fallback stored under the requested tag in the package-level name tables","first use of a tag that is neither en nor ja by two goroutines at once","caught by the first version of the check (cold start makes the first use concurrent)"),
"C16-r2-3":("parsed templates cached in one correctly locked template set","two templates defining equally named blocks differently: parse A, parse B, execute A","missed first (no templates with define in C16/re-exports in C19); caught after conflicting-define templates were added to C16 and earlier templates are re-exported in C19"),
"C19-r2-1":("export renders into a pooled buffer and returns a reader over it","the reader of export 1 held undrained while export 2 runs","missed first (every reader was drained at once); caught after readers are held across later exports"),
"C19-r2-2":("all exports share one template namespace","an earlier template defines x, a later one only references x and succeeds","caught by the first version of the check"),
"C19-r2-3":("fail-fast count of {{ versus }}","valid templates with {{ inside a string constant, raw string or comment","caught by the first version of the check"),
}
for k,(b,n,h) in N.items():
    p='/verif/seeded/%s/meta.json'%k
    if not os.path.exists(p): print("missing",k); continue
    m=json.load(open(p)); m['breaks_by']=b; m['needs_to_manifest']=n; m['history']=h; m['round']=2
    m['check_result_quick']=res.get(k,m.get('check_result_quick',''))[:200]
    json.dump(m,open(p,'w'),indent=1,ensure_ascii=False)
# ---- second batch of round 2 (remaining properties)
N3={
"C01-r2-1":("PR weight frozen at decode time (bm.prWeight), live lookup only when it is 0","a decoded object whose S or PR is then assigned through the exported fields (PR:L/H with S flipped)","missed first (struct-built objects always came from a constructor); caught after the object-origin dimension 'decoded from another vector, then every exported field overwritten' was added to C01/C03"),
"C01-r2-2":("process-wide score table keyed by Encode() (which only prints decoded metrics)","a Base built by setting fields directly, scored after another such object of the same version","caught by the first version of the check (directly built structs)"),
"C01-r2-3":("per-object score memo published (key + 0.0) before the value is computed","a second goroutine entering Score() during the first evaluation on a shared decoded object","sequentially invisible: not visible to C01; caught by C16 (first query of a shared object is concurrent)"),
"C02-r2-1":("v3.0 vectors rounded with math.Ceil(x*10)/10","version 3.0, base score 2.5/5.0/10.0, RC:U, E and RL weight 1 (228 of 518,400)","caught by the first version of the check"),
"C02-r2-2":("decoders made re-usable with an incomplete reset (RC forgotten)","the same instance decodes a vector with RC:U/R and then one that omits RC","NOT CLAIMED: decoder re-use (see DESIGN section 5 and 9.4)"),
"C02-r2-3":("per-instance memo of the temporal score written unsynchronised, published before computed","a second goroutine entering during the instance's first Score()","sequentially invisible: not visible to C02; caught by C16"),
"C04-r2-1":("temporal product in integer hundredths with a truncating toFixed","base scores 2.3/4.1/4.6/8.7/9.7 with a product just above x.x5 (215 vectors)","caught by the first version of the check"),
"C04-r2-2":("process-wide memo of E*RL*RC with an undersized key field","a colliding (RL, RC:C) pair scored earlier in the same process","caught by the first version of the check"),
"C04-r2-3":("exploitability cached on the Base object and built up in place","two goroutines making the first Score() calls on the same decoded object","sequentially invisible: not visible to C04; caught by C16"),
"C06-r2-1":("Environmental.Severity() returns the temporal severity when no environmental token was decoded","v3.1, S:C, environmental group omitted (names-based), 320 of 518,400","caught (all-Not-Defined phase added after C06-2)"),
"C06-r2-2":("package-level single-entry base-score memo in two separate atomics","two goroutines scoring different base vectors at once; no race report","caught by the first version of the check (16 concurrent workers see a severity that is not the band of the score)"),
"C06-r2-3":("v2 Environmental.Severity() rates the last Score() result, invalidated only by environmental tokens","Score() on the fresh receiver, Decode of a base(+temporal) vector into it, then Severity() before Score()","missed first; caught after (1) the receiver mode 'queried before Decode' reached the score monitors (DecodeAuto) and (2) the query order alternates (severity before score, top level before views)"),
"C09-r2-1":("v3 Environmental.IsEmpty() from names; Score short-cut to the temporal score","v3.1, S:C, no environmental token vs the same vector with /MS:X","caught (decoder-level spellings added after C09-1)"),
"C09-r2-2":("decoders made re-usable with an incomplete reset (MS forgotten)","the same *Environmental decodes twice, the earlier vector with MS:U/C, the later omitting MS","NOT CLAIMED: decoder re-use"),
"C09-r2-3":("token slices recycled through a sync.Pool while still in use","two overlapping Decode calls on different fresh instances","caught by the first version of the check (concurrent workers); also C16"),
"C13-r2-1":("a spelled-out MS:X overrides the base Scope","CVSS:3.0, S:C, literal MS:X token","caught by the first version of the check"),
"C13-r2-2":("one-entry environmental score memo whose key omits the version","the same metrics scored as v3.1 and then immediately as v3.0","caught after the version-adjacent phase (same metrics as 3.1 then 3.0 and vice versa on one goroutine) was added"),
"C13-r2-3":("decoders made re-usable; reset() re-creates names only","one instance decodes two vectors, the second omitting optional metrics the first had","NOT CLAIMED: decoder re-use"),
"C14-r2-1":("v2 lazy sub-score cache seeded by the first caller","Environmental.Score() called before any base/temporal score on that object","caught (views compared after queries, added after C14-2)"),
"C14-r2-2":("package-level 'last base score' memo in two separate atomics","goroutines scoring different base metrics at the same time; no race report","caught by the first version of the check (concurrent workers)"),
"C14-r2-3":("decoders made re-usable with an incomplete reset","a used receiver that parsed non-X temporal metrics, then a vector omitting them","NOT CLAIMED: decoder re-use"),
"C17-r2-1":("environmental report copies the temporal score/severity when all environmental metrics are X","v3.1, S:C, every environmental metric X","caught (C17 cycles the vector's own level since C17-1)"),
"C17-r2-2":("cache returns the same *BaseReport object for the last language","a report still held while another one is built in the same language","caught after every report is re-read once the next reports have been built (held-report check)"),
"C17-r2-3":("last rendered score remembered in two separate atomics","concurrent report building with different scores","caught by the first version of the check (concurrent workers)"),
"C18-r2-1":("lang.Base() retried after the exact-match miss","und-JP / und-Jpan / und-Hira inferred as Japanese","caught after und-* tags were moved (back) into the judged group: their language is undetermined, so the statement asks for English"),
"C18-r2-2":("display language decided once per CompactIndex slot","the first Japanese-flavoured request of the process is ja-US/ja-DE","caught after C18 also runs in fresh child processes whose first lookups are regional variants / other languages"),
"C18-r2-3":("lock-free one-entry language cache in two atomic.Values","English and Japanese lookups from different goroutines","caught after C18 runs its whole check set from 8 goroutines at once"),
"C20-r2-1":("flat array indexed through uint8(rl)","out-of-range integers whose value mod 256 is 1..5","caught after the integer sweep was widened (-1100..1100, around 2^15/2^16/2^24/2^31/2^32, MinInt/MaxInt)"),
"C20-r2-2":("reverse index keyed by metric name + code without separator","GetAvailabilityImpact(\"VN\") after any GetAttackVector call","caught (candidate strings are tested for every metric; now in two passes, the second after all metrics were looked up)"),
"C20-r2-3":("remember-the-last-prefix cache for GetVersion in two atomics","two goroutines parsing different version prefixes at once","caught after lookups are also run from 8 goroutines at once"),
}
for k,(b,n,h) in N3.items():
    p='/verif/seeded/%s/meta.json'%k
    if not os.path.exists(p): print("missing",k); continue
    m=json.load(open(p)); m['breaks_by']=b; m['needs_to_manifest']=n; m['history']=h; m['round']=2
    m['check_result_quick']=res.get(k,m.get('check_result_quick',''))[:200]
    json.dump(m,open(p,'w'),indent=1,ensure_ascii=False)


# ---- round 3 (dimensions a harness rarely varies)
N4={
"C03-r3-1":("process-wide spelling->constant cache shared by v2 GetAccessVector and v3 GetAttackVector without a version namespace","the v2 package used before v3 in the same process: every later v3 AV:N decodes as Adjacent","missed first (each check used one CVSS version only); caught after the cross-version prelude (C01-C03 decode every v2 base vector first, C04/C05 v3 vectors)"),
"C03-r3-2":("ring cache of 16384 decoded vectors whose recycled slots stay in the index","a vector decoded again after more than 16384 other distinct vectors returns another vector's metrics","missed first (no vector was decoded twice far apart); caught after C03 decodes the first 4000 vectors of its decode phase again at the end (C15 revisits its first sources too)"),
"C03-r3-3":("effective-scope memo taken when the MS token is decoded","an explicit MS:X token before the S:C token","caught by the first version of the check (random token orders)"),
"C07-r3-1":("value looked up by decoding one rune and truncating it to a byte","an AV/MAV value that is one multi-byte rune congruent mod 256 to a valid code (U+014E for N)","missed first; caught after rune-level relatives of every character (U+0100+c, U+0400+c, U+10000+c, fullwidth form, percent escape) were added to the character edits"),
"C07-r3-2":("field table with an 8-bit length","a field followed by exactly 256*k further bytes","caught by the first version of the check (length sweep)"),
"C07-r3-3":("duplicate marks drawn from a 16-bit process-wide call serial","every 65536th temporal/environmental Decode of the process rejects a valid vector with optional metrics","missed first (valid vectors were decoded in one early phase only); caught after valid vectors were interleaved through the whole string workload"),
"C08-r3-1":("fullwidth forms folded before decoding","a valid vector with characters replaced by their exact fullwidth forms","missed first; caught with the rune-level relatives"),
"C08-r3-2":("order tracked while decoding, with a hole for a contiguous E/RL/RC block inside the environmental group","the complete temporal group moved as a block to after the 1st..4th environmental token","caught (barely: one violation) by the first version; now systematically by the contiguous block moves added to the token edits"),
"C08-r3-3":("percent-unescaping before decoding","a character written as its %XX escape","missed first; caught with the percent-escape relatives"),
"C11-r3-1":("v2 strips a leading BOM before splitting but compares the original","a BOM-prefixed otherwise valid v2 vector is reported as misordered","caught by the first version of the check"),
"C11-r3-2":("incompleteness error wraps ErrMisordered as cause","an input that is both incomplete and misordered matches two sentinels","caught by the first version of the check"),
"C11-r3-3":("strings.SplitN(vector, \"/\", 256)","a valid vector followed by 257+ unknown well-formed tokens is reported as invalid vector","caught by the first version of the check (length sweep)"),
"C12-r3-1":("field scanner with a 16-bit cursor","a vector longer than 65536 bytes whose fields before that offset are all well-formed panics","caught by the first version of the check (multi-megabyte inputs)"),
"C12-r3-2":("error-context abbreviation walks forward over continuation bytes without a bound","a rejected field longer than 51 bytes whose last 16 bytes are all 0x80..0xBF panics","missed first; caught after runs of continuation / lead bytes at the end, start and middle of fields of several lengths were added to the length sweep"),
"C12-r3-3":("v2 IsEmpty judged from IsValid of the group's metrics","ALL metrics of a decoded group reset invalid at once: GetError nil, non-zero score","missed first (fields were reset one at a time); caught after whole groups, all base metrics and random pairs/triples are reset together"),
"C15-r3-1":("language fallback through a language.Matcher built by ranging over the name map","region-tagged tags of non-Latin-script languages (ko-KR, zh-TW, ru-RU): Japanese with probability 1/8 per lookup","missed first (no such tag among the report languages of C15); caught after ko-KR, zh-TW, ru-RU, ar-EG, und-Hans-JP were added (C18 catches it too)"),
"C15-r3-2":("name tables recycled by a finalizer on the outermost object","only the BaseMetrics()/TemporalMetrics() view is kept, the owner is dropped and a GC runs: the view's Encode changes","missed first; caught after C15 keeps views, drops their owners, forces collections and observes the views again"),
"C15-r3-3":("one-entry environmental score memo keyed by object address and environmental values","the last-scored object is collected and a new object at the same address decodes a vector with the same environmental part","caught by the first version of the check (half of the histories run under forced collections since round 2)"),
"C16-r3-1":("report constructors append the resolved language to the caller's option slice","options passed as a sub-slice with spare capacity of an array shared between goroutines","missed first; caught after C16 builds reports from sub-slices of one shared option array"),
"C16-r3-2":("template cache deletes from its map under the read lock once 256 entries are reached","more than 256 distinct templates in the process, then concurrent exports with an uncached one","missed first (ten template texts); caught after every fifth export carries a never-seen text"),
"C16-r3-3":("output normalised to NFC through one shared stateful transformer","templates whose text is not NFC-normal exported concurrently","missed first; caught after a template with decomposed characters joined C16's set (and such literals C19's grammar)"),
"C17-r3-1":("language tags resolved by compact index without the exact flag","ja-u-ca-japanese, ja-x-internal, ja-hepburn, ja-US ... produce Japanese","NOT CLAIMED: these tags' language IS Japanese; the statement fixes the result only for tags whose language is neither English nor Japanese and leaves variants of English/Japanese unspecified"),
"C17-r3-2":("embedded *BaseReport taken from a free list and returned by a finalizer on the owner","only the embedded lower-level report is kept, the owner is collected, a later report is built","missed first; caught after C17 keeps exactly one embedded part per report, drops the rest, forces collections and re-reads"),
"C17-r3-3":("templates that look like an HTML document rendered with html/template","field values in URL / unquoted attribute / script contexts of a template starting with <!doctype html> or <html","a template-export defect (C19's property): missed by C17 (which does not export), caught by C19 after HTML-document-looking templates were added to its grammar"),
"C19-r3-1":("*os.File fast path sized from Stat() but filled from the current offset","a regular file whose read position is past the start: k trailing NUL bytes","missed first (no *os.File readers); caught after files (at offset 0 and k), positioned strings.Readers, io.Pipe, bufio, MultiReader and LimitReader joined the reader shapes"),
"C19-r3-2":("rendered output normalised to NFC","literal text that is not NFC-normal (decomposed accents, OHM SIGN, a combining mark right after an action)","missed first; caught after such literals were added to the template grammar"),
"C19-r3-3":("up-front unknown-field validator that ignores short-circuit and/or","a missing field in an argument position text/template never evaluates","missed first; caught after missing fields in unevaluated positions (or/and, dead branches) were added to the grammar"),
}
for k,(b,n,h) in N4.items():
    p='/verif/seeded/%s/meta.json'%k
    if not os.path.exists(p): print("missing",k); continue
    m=json.load(open(p)); m['breaks_by']=b; m['needs_to_manifest']=n; m['history']=h; m['round']=3
    m['check_result_quick']=res.get(k,m.get('check_result_quick',''))[:200]
    json.dump(m,open(p,'w'),indent=1,ensure_ascii=False)


# ---- round 3, second batch (remaining properties)
N5={
"C01-r3-1":("base scores looked up in a table filled on first use without synchronisation","the first Score() calls of a fresh process made concurrently","caught by C01 (its workers make the first calls concurrently) and by C16's cold start"),
"C01-r3-2":("Decode parses into a scratch object and finishes with *recv = *work","a view (BaseMetrics(), .Base) taken from the decoder object BEFORE Decode stays empty","NOT CLAIMED: the properties speak about the object Decode returns and the views obtained from it; what a pointer taken from the receiver before Decode shows afterwards is not specified (a Decode that returned a new object would satisfy every statement)"),
"C01-r3-3":("report export reuses one package-level buffer and returns a reader over it","the reader of an earlier export read after a later export","a template-export defect (C19): caught by C19's held readers"),
"C02-r3-1":("Decode fills and returns a COPY (value receiver helper returning &tm)","the caller queries the object Decode was called on instead of the returned one","NOT CLAIMED: the state of the receiver after a successful Decode is not specified by any property (see C01-r3-2)"),
"C02-r3-2":("GetError early-out on len(names) < 8 for a non-nil names map","an object from NewTemporal()/NewEnvironmental() whose fields are assigned directly, with no Decode","caught by the first version of the check (directly built Temporal structs)"),
"C02-r3-3":("per-instance table of setter closures capturing the constructor's pointer","the decoder is held BY VALUE (tv := *NewTemporal()) before its one Decode","missed first; caught after the receiver mode 'by-value copy of a constructor result' was added"),
"C04-r3-1":("Encode()/String() derive the names map for struct literals; IsEmpty becomes len(names)==0","a v2 struct LITERAL printed before it is scored","NOT CLAIMED: struct literals of the v2 types are not reachable by a constructor or by Decode (group presence lives in unexported state); the properties do not range over them"),
"C04-r3-2":("debug logging of the sub-scores overwrites the live variables with one-decimal values","the process has a debug-level default slog logger","a process-environment dependence: not visible to C04 (whose process keeps the default logger); caught by C15 after one of its child processes installs a debug-level default logger"),
"C04-r3-3":("Environmental.Score tests a flag set only by Environmental.Decode instead of Temporal.IsEmpty()","an Environmental assembled around a separately decoded Temporal (embedded decoder used directly, pointer replaced, literal)","an environmental-score defect (C05): caught by C05 after assembled objects were added (C04's own scores are unaffected)"),
"C05-r3-1":("Decode assigns a fresh object to its receiver variable unconditionally","the caller queries the decoder object instead of the returned one","NOT CLAIMED: receiver state after a successful Decode (see C02-r3-1)"),
"C05-r3-2":("the same hasTemporal flag as C04-r3-3","Environmental assembled around a separately decoded Temporal","caught after assembled objects were added to C02-C05"),
"C05-r3-3":("CDP weights moved into an array filled by init()","environmental scores computed inside a package-level variable initialiser of package metric itself","OUT OF REACH: only code inside the library's own package runs before its init(); an external monitor cannot produce that execution"),
"C06-r3-1":("Environmental.Severity() memo validated against the object it was taken from, not the receiver","a by-value copy of an already rated object whose fields are then changed","missed first; caught after by-value copies of rated objects with overwritten fields were added to C06 (and as an object origin to C03)"),
"C06-r3-2":("v2 Environmental.Severity() returns Low whenever the ADJUSTED BASE equation is negative","a negative adjusted base lifted to a positive final score by CDP: 4.9 reported Low","caught by the first version of the check (the exemption is decided on the final equation since C05-1)"),
"C06-r3-3":("temporal rating kept in the shared *Base and validated against the Temporal it was taken from","several Temporal literals around one Base pointer","missed first; caught after Temporal literals sharing one Base were added to C06"),
"C09-r3-1":("flat PR weight table filled on first use, ready flag set before the fill","the first scoring calls of a process made concurrently","a score defect under concurrency: fields stay correct, so not visible to C09; caught by C16 (cold start) and C01"),
"C09-r3-2":("NewEnvironmental() stores a private pointer to its Base and Score() reads through it","an object assembled from the constructor plus a decoded part (e.Temporal = decodedTemporal)","a score defect (C03): fields stay correct, so not visible to C09; caught by C03 after assembled objects were added"),
"C09-r3-3":("the hasTemporal-style flag of C04-r3-3 on v2","em := NewEnvironmental(); em.Temporal.Decode(v)","a score defect (C05): caught by C05 after assembled objects were added"),
"C10-r3-1":("the scratch-object Decode of C01-r3-2","a level pointer taken from the decoder before decoding encodes as empty","NOT CLAIMED (see C01-r3-2)"),
"C10-r3-2":("surrounding parentheses trimmed before decoding","\"(AV:N/...)\" is accepted and encodes without the parentheses","caught (library-accepted strings are round-tripped since C10-r2-1; C08 rejects the acceptance as well)"),
"C10-r3-3":("order validation by a bit mask in a uint","a 32-bit build (GOARCH=386): environmental metrics are never order-checked","OUT OF REACH in this sandbox's configuration: the monitors run as amd64 binaries only; other GOARCH values are a configuration dimension that is not explored"),
"C13-r3-1":("PR weight stored while decoding, corrected only when S is decoded afterwards","S:C written before PR:L/PR:H","caught after C13 decodes every second vector in a random token order (C01 caught it as well)"),
"C13-r3-2":("effective modified scope resolved when the MS token is decoded","an explicit MS:X written before S:C","caught with the random token orders"),
"C13-r3-3":("MPR weight resolved when MPR is decoded","an explicit MPR:X after PR:L/H but before S:C","caught with the random token orders"),
"C18-r3-1":("default language read from LC_ALL / LC_MESSAGES / LANG at package init and substituted for und","the process starts under a Japanese POSIX locale","missed first; caught after C18 also runs child processes under LC_ALL=ja_JP.UTF-8"),
"C18-r3-2":("table entry whose tag string is a prefix of the requested tag","three-letter codes starting with ja (jam, jax, ...)","caught by the first version of the check (lookalike codes)"),
"C18-r3-3":("language.NewMatcher over a list built by ranging over a map at init","about 1 process in 8: non-Latin-script languages get Japanese","caught (by chance with 5 processes); now 40 (quick) / 200 (thorough) further fresh child processes make it reliable"),
"C20-r3-1":("an environmental value is stored only after it was validated","after a Decode rejected for a bad code the RECEIVER keeps X instead of the invalid value","NOT CLAIMED: Get<Metric>(bad code) still returns the invalid value, which is what C20 states; which value a rejected Decode leaves in the receiver's field is not specified (C12 only requires objects that DO hold an invalid value to report an error)"),
"C20-r3-2":("codes packed big-endian into a uint32 key (leading NUL bytes vanish)","\"\\x00H\", \"\\x00OF\" parse as defined v2 temporal values","missed first; caught after byte-prefixed / -suffixed variants of every code were added to the candidate strings"),
"C20-r3-3":("version label parsed with strconv.Atoi","03.1, +3.0 map to a supported version","caught by the first version of the check (03.1 is a candidate label)"),
}
for k,(b,n,h) in N5.items():
    p='/verif/seeded/%s/meta.json'%k
    if not os.path.exists(p): print("missing",k); continue
    m=json.load(open(p)); m['breaks_by']=b; m['needs_to_manifest']=n; m['history']=h; m['round']=3
    m['check_result_quick']=res.get(k,m.get('check_result_quick',''))[:200]
    json.dump(m,open(p,'w'),indent=1,ensure_ascii=False)


# ---- changes that break (also) another property and are caught by that property's check (each verified with mutants/run.sh)
OTHER={"C01-r2-3":"C16","C02-r2-3":"C16","C04-r2-3":"C16","C05-r2-3":"C16","C15-r2-2":"C16","C10-r2-2":"C16","C01-r3-3":"C19","C17-r3-3":"C19","C04-r3-2":"C15","C04-r3-3":"C05","C09-r3-1":"C16","C09-r3-2":"C03","C09-r3-3":"C05","C01-2":"C16","C17-2":"C16","C09-2":"C15","C14-1":"C15","C14-2":"C15"}
for k,other in OTHER.items():
    p='/verif/seeded/%s/meta.json'%k
    if os.path.exists(p):
        m=json.load(open(p)); m['also_caught_by_check_of']=other
        json.dump(m,open(p,'w'),indent=1,ensure_ascii=False)

# README
rows=[]
for d in sorted(glob.glob('/verif/seeded/C*-*/')):
    name=os.path.basename(d.rstrip('/'))
    m=json.load(open(d+'meta.json'))
    m['check_result_quick']=res.get(name,m.get('check_result_quick',''))[:200]
    json.dump(m,open(d+'meta.json','w'),indent=1,ensure_ascii=False)
    rows.append((name,m['property'],m.get('round',1),res.get(name,'?'),m.get('history','') + ((" [also verified: caught by the check of %s]" % m['also_caught_by_check_of']) if m.get('also_caught_by_check_of') else "")))
out=["# Seeded changes","",
"Round 1: forty changes, two per property; round 2: sixty subtler ones (three per property); round 3: fifty-seven that look for dimensions a harness rarely varies (narrow inputs, multi-step histories, interleavings, cooperating sites). Each was written by an independent sub-agent that was given only the property text and its own scratch worktree (nothing from /verif), and confirmed here with `seeded/confirm.sh` in a scratch worktree: it applies, compiles, the unedited repository suite passes with it, its demonstration fails with it and passes without it. `seeded/rerun.sh` re-runs all of them against the check of their property (RESULTS.txt). `agent-notes.md` in each directory is the author's description of the changes of that property/round; `meta.json` says what the change breaks, what it needs in order to manifest, what was run and the history of the check against it.","",
"| change | property | round | quick check of its property | history |","|---|---|---|---|---|"]
for name,prop,rnd,r,h in rows:
    v="CAUGHT" if "CAUGHT" in r else ("MISSED" if "MISSED" in r else r[:30])
    out.append("| %s | %s | %s | %s | %s |"%(name,prop,rnd,v,h))
open('/verif/seeded/README.md','w').write("\n".join(out)+"\n")
print(len(rows))

