#!/bin/bash
# tools/replaytest.sh: for one seeded change per property, runs the check on the changed copy, then replays the
# first recorded violation against the changed copy (expect exit 1) and against /repo (expect exit 0).
cd "$(dirname "$0")/.."
export GOPROXY=off GOSUMDB=off GOTOOLCHAIN=local
for d in ${@:-seeded/C*-1}; do
  id=$(basename $d | cut -d- -f1)
  S=$(mktemp -d /tmp/verif-rp.XXXXXX); rsync -a --exclude .git /repo/ $S/repo/; (cd $S/repo && patch -p1 -s < $OLDPWD/$d/patch.diff)
  export VERIF_MUTANT_OUT=/verif/out/mutant-run/rp-$id
  VERIF_REPO=$S/repo ./check $id quick > $S/check.log 2>&1
  f=$(grep -a -m1 '^VIOLATION' $S/check.log | sed 's/.*replay=//' | awk '{print $1}')
  if [ -z "$f" ] || [ ! -f "$f" ]; then echo "$id $(basename $d): no replay file ($f)"; rm -rf $S $VERIF_MUTANT_OUT; continue; fi
  VERIF_REPO=$S/repo ./check $id --replay "$f" > $S/r1.log 2>&1; a=$?
  unset VERIF_MUTANT_OUT
  ./check $id --replay "$f" > $S/r2.log 2>&1; b=$?
  echo "$id $(basename $d): replay on changed copy rc=$a (want 1), on /repo rc=$b (want 0)  [$(basename $f)]"
  [ $a -ne 1 ] && tail -3 $S/r1.log | cut -c1-200
  [ $b -ne 0 ] && tail -3 $S/r2.log | cut -c1-200
  rm -rf $S /verif/out/mutant-run/rp-$id
done
