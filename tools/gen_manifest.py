#!/usr/bin/env python3
"""Regenerates /verif/MANIFEST.json from the table below (one row per property)."""
import json, os, sys
HERE = os.path.dirname(os.path.dirname(os.path.abspath(__file__)))
TB = ("Trusted: Go toolchain/runtime, math/big, reflect, text/template, race detector; the harness's transcription of the FIRST tables/"
      "equations and vector grammars (harness/spec). Verdicts use API-observable state only. Decides the executions it produced, nothing more.")
# id: (built, technique, text, design_ref, note)
P = {
 "C01": (True, "runtime monitor: exhaustive enumeration of all 5,184 base vectors x 3 decoders x random token orders, differential against exact big.Rat reference model",
         "Every (version, base combination) is executed through all three decoders, several token orders and a directly built struct and compared bit-for-bit with the exact FIRST value; complete for the finite domain relative to the oracle, sampled over token orders.", "4/C01", TB),
 "C02": (True, "runtime monitor: exhaustive enumeration of all 518,400 temporal vectors, differential against exact integer reference model",
         "The whole finite domain is executed at the temporal decoder (and a quarter/all at the environmental decoder's temporal view) and compared with the exact ceiling of rounded-base x weights.", "4/C02", TB),
 "C03": (True, "runtime monitor: full effective-metric x temporal product (14 M) + 20 M random full-space samples (quick) / full 1.15e10 product (thorough) on the real Score(), differential against big.Rat table",
         "The score is a function of the effective metrics; that product is executed completely with seed-chosen representations, plus decoded vectors; thorough executes the full version x base x environmental product the property names.", "4/C03", TB),
 "C04": (True, "runtime monitor: exhaustive enumeration of all 73,629 v2 base/temporal vectors x admitting decoders, and of the same vectors followed by environmental groups at the environmental decoder (quick 4 seeded groups each, thorough all 141 M v2 vectors), differential against exact model with admissible tie sets; known finding KF-1",
         "The whole finite domain is executed at every admitting decoder and compared with the exact rational equations (exact halves either way). 22 base vectors deviate (sub-scores rounded to two decimals) and are listed in known_findings.json with the library's value; any other mismatch is a violation.", "4/C04", TB),
 "C05": (True, "runtime monitor: every (exploitability, adjusted-impact) key x all (CDP,TD) x temporal states through Decode (quick 5.6 M, thorough all 141 M vectors), differential against exact layered admissible-set model; known finding KF-2",
         "Every sub-score key of the environmental equation is executed with all CDP/TD pairs; thorough executes the entire 141 M-vector domain. Mismatches are attributed to the recorded finding only for listed keys with the recorded value.", "4/C05", TB),
 "C06": (True, "runtime monitor: rider on the exhaustive C01-C05 enumerations; per-observation grid/range/format/band oracle on integer tenths",
         "Every (score, severity) pair produced by the exhaustive enumerations of all levels and versions is checked; evidence lists which tenths and band edges were actually observed per level.", "4/C06", TB),
 "C07": (True, "runtime monitor: string-language differential - every workload string at all three decoders against a reference recogniser written from the property text; workload = all valid vectors' covering family, every single-character edit at every position of seed vectors (alphabet, byte- and rune-level relatives, percent escapes), closed token-edit catalogue incl. block moves, double/triple edits, count/length threshold sweep, token-level exhaustive enumeration, random bytes; three receiver modes (fresh, nil, queried before Decode); valid vectors interleaved throughout",
         "Acceptance is a property of an unbounded string language; the monitor decides the strings it runs (millions per run, the complete 1-edit neighbourhood of hundreds of seed vectors). No claim beyond those.", "4/C07", TB),
 "C08": (True, "runtime monitor: string-language differential - every workload string at all three decoders against a reference recogniser written from the property text; workload = all valid vectors' covering family, every single-character edit at every position of seed vectors (alphabet, byte- and rune-level relatives, percent escapes), closed token-edit catalogue incl. block moves, double/triple edits, count/length threshold sweep, token-level exhaustive enumeration, random bytes; three receiver modes (fresh, nil, queried before Decode); valid vectors interleaved throughout",
         "Same as C07 for the canonical v2 language (group completeness, order, level).", "4/C08", TB),
 "C09": (True, "runtime monitor: exported-field oracle (metric code -> library constant by name) + metamorphic equality of the full observation across token orders and X spelled/omitted, over the valid-side corpus",
         "Every corpus vector (all base combinations x seeded optional subsets; all 73,629 v2 vectors +/- environmental group) is decoded at every admitting decoder in three spellings; fields are compared with the harness's own assignment and the full observation must not depend on the spelling.", "4/C09", TB),
 "C10": (True, "runtime monitor: canonical-encoding oracle written from the specification order + decode(encode(x)) round-trip monitor over the valid-side corpus",
         "Every corpus vector at every admitting decoder: Encode() text equals the harness's canonical string, String()==Encode(), and re-decoding the encoding reproduces fields, scores, severities and encoding.", "4/C10", TB),
 "C11": (True, "runtime monitor: errors.Is census over all 11 sentinels on every rejected workload string at all six decoders, against a reference defect classifier; sharp single-classified-edit catalogue per metric and position",
         "Every rejection observed must match exactly one sentinel, inside the set of defects the classifier finds; single-defect inputs (about 1 M per quick run) must report exactly their class. Evidence holds the class x sentinel matrix.", "4/C11", TB),
 "C12": (True, "runtime monitor: recover()-wrapped calls + process-crash detection over hostile inputs (incl. count/length thresholds and continuation-byte runs), nil receivers, fresh and queried-before-decode objects, objects left behind by failed decodes, second Decode on a used receiver, single- and multi-field resets, out-of-range field integers; assertion oracle on (object, error) shape and on error/zero-score of invalid objects",
         "All workload and hostile strings at all six decoders through both receivers; the observer sweep covers every observer method on every object state the quantifier names. One genuine defect found and fixed (nil-receiver IsEmpty).", "4/C12", TB),
 "C13": (True, "runtime monitor: relational oracle between two scores of the same decoded vector over the exhaustive domains",
         "Relations (ND-neutrality, TD:N => 0, temporal <= base) are checked on every vector of the finite domains (v2 TD:N on every sub-score key in quick, all 28 M in thorough); no spec oracle involved.", "4/C13", TB),
 "C14": (True, "runtime monitor: differential between the views of a higher-level object and an independent lower-level decode of the projected token list",
         "Every temporal/environmental corpus vector: BaseMetrics(), TemporalMetrics(), nested views and exported embedded objects must report what an independent lower-level decoder reports for the projection.", "4/C14", TB),
 "C15": (True, "runtime monitor: per-object history monitor (exported state compared after every operation, every result compared with the first, twins before/after), mutate/query/restore steps, cross-process order-permutation differential, before/after API snapshot of all package tables, live-object pool, views kept after their owner was collected, revisits, forced garbage collections",
         "Bounded random query histories on thousands of objects of all six types and origins; the same multiset of (vector, operation) pairs executed by several child processes in different orders and by cold single-pair processes must give identical digests; repeated lookups expose duplicated codes.", "4/C15", TB),
 "C16": (True, "Go race detector (-race build, GORACE halt_on_error=0 + log_path, reports counted from log files and de-duplicated by outermost library frame pair) over a concurrent stress workload with cold starts, never-queried shared objects per phase, shared report objects and a shared option array, reader faults, accumulating distinct templates, one round in three under GOGC=5; concurrent-vs-sequential result differential; offline overlap-matrix analysis of the recorded call/return history",
         "The race detector generalises over timing for every pair of accesses it sees; the workload shares decoded objects and report objects between 8-64 goroutines without any synchronisation of the monitor's own, makes the first library use of every process concurrent, and repeats rounds until every operation pair has actually overlapped; says nothing about code the workload did not reach.", "4/C16", TB),
 "C17": (True, "runtime monitor: reflection-enumerated report fields against the harness's wiring table (field -> metric/level/names function), all base vectors x vector levels x report levels x languages; reports and embedded reports re-read after later reports were built / after their owner was collected",
         "Every exported field of the three report structs, including shadowed fields through embedded reports, is compared for every base vector with seeded extensions chosen so that neighbouring like-typed metrics differ (counted), in English, Japanese and other languages.", "4/C17", TB),
 "C18": (True, "runtime monitor: exhaustive enumeration of the 52 names functions x enumeration integers x language tags with totality/injectivity/fallback oracles, run by 8 goroutines at once and in fresh child processes with other first lookups; registry completeness via go/parser",
         "The whole finite domain of functions x values is executed for English and Japanese; the fallback is executed for 37 tags whose language is neither (incl. lookalike codes enm/jam/jv); regional variants are exercised but not judged.", "4/C18", TB),
 "C19": (True, "runtime monitor: differential against Go's text/template (same toolchain) on a seeded template grammar (valid and invalid) x reports of three levels x two languages; reader-equivalence monitor over many reader shapes (files at offsets, pipes, bufio, chunked, stuttering, data+EOF); fault injection through the caller-supplied io.Reader (failing after k bytes, nil reader, nil report); held readers, re-exports, small-piece reads",
         "All template texts is an unbounded set: the monitor decides the templates it generates (20 k quick / 1 M thorough), including failures that strike after output was produced; readers of many shapes must be equivalent to the string path.", "4/C19", TB),
 "C20": (True, "runtime monitor: exhaustive per-metric table check (codes, constants by name, weights as identical float64, dependent weights) + all strings of length <= 3 as codes, wide out-of-range integer sweep, lookups repeated for map-iteration nondeterminism, in two passes and from 8 goroutines at once",
         "Finite tables: every code, every enumeration integer, every dependent-weight combination is executed; 'every other string' is covered by all alphanumeric strings up to length 3 (4 upper-case in thorough) plus adversarial ones.", "4/C20", TB),
}
checks, na = [], []
for pid in sorted(P):
    built, tech, text, ref, note = P[pid]
    if not built:
        na.append({"property_id": pid, "reason": "monitor not built yet in this revision (planned, see DESIGN.md section " + ref + "); runtime monitoring applies"})
        continue
    checks.append({
        "property_id": pid,
        "quick_cmd": f"./check {pid} quick",
        "thorough_cmd": f"./check {pid} thorough",
        "evidence_file": f"/verif/evidence/{pid}.json",
        "replay_cmd_template": f"./check {pid} --replay {{path}}",
        "engine": "mon",
        "level_claimed": {"category": "exploration", "text": text, "design_ref": "DESIGN.md section " + ref},
        "level_note": note,
        "technique": tech,
    })
m = {
 "version": 1,
 "setup_cmd": "./setup.sh",
 "hooks": {"guard": "verif", "enable": "go build -tags verif (no hook is needed: every property is observable through the exported API; the tag is reserved and passed by ./check)",
           "baseline_off_cmd": "cd /repo && GOPROXY=off GOSUMDB=off GOTOOLCHAIN=local go test -vet=off -count=1 ./...",
           "source_commits": [], "add_only": True},
 "engines": [{"name": "mon", "path": "harness/cmd/mon", "serves_properties": [c["property_id"] for c in checks],
              "kind_free_text": "Go monitor binary rebuilt by ./check from /repo's working tree (replace directive); runs the real library under generated workloads and compares every observation at the client boundary with reference models / relational oracles / the race detector"}],
 "checks": checks,
 "not_applicable": na,
 "notes": "Technique family: runtime monitoring. The score, corpus and view monitors (C01-C06, C09, C10, C13, C14) end with compact re-runs of themselves in fresh child processes with GOMAXPROCS 1, 3, 7 and 14; C12 decodes its long inputs once more in a child process with a 16 MiB stack limit; C15, C16 and C18 use child processes for process orders, race-detector rounds and first-use orders. ./check exits 0 (held on everything explored), 1 (VIOLATION line + replay file) or 2 (INCONCLUSIVE: build failure, watchdog, observation floor not reached). Known findings: known_findings.json.",
}
json.dump(m, open(os.path.join(HERE, "MANIFEST.json"), "w"), indent=1)
print("checks:", len(checks), "not_applicable:", len(na))
