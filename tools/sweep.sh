#!/bin/bash
# tools/sweep.sh <tier> [seed ...]   runs every check at the given tier and seeds; prints rc and wall time per run
cd "$(dirname "$0")/.."
TIER="${1:-quick}"; shift; mkdir -p out
SEEDS="${@:-1}"
for seed in $SEEDS; do
  for i in 01 02 03 04 05 06 07 08 09 10 11 12 13 14 15 16 17 18 19 20; do
    t0=$(date +%s)
    VERIF_SEED=$seed ./check C$i $TIER > out/sweep-C$i-$TIER-$seed.log 2>&1
    rc=$?
    echo "C$i $TIER seed=$seed rc=$rc wall=$(( $(date +%s) - t0 ))s $(grep -a -c '^VIOLATION' out/sweep-C$i-$TIER-$seed.log) violations; $(tail -1 out/sweep-C$i-$TIER-$seed.log | cut -c1-150)"
  done
done
